#!/usr/bin/env python3
"""Writes MANIFEST.json from the table below (kept in one place so that the
manifest is always valid and in step with ./check)."""
import json, os
HERE = os.path.dirname(os.path.abspath(__file__))
rules = json.load(open(os.path.join(HERE, "rules.json")))
props = [json.loads(l) for l in open(os.path.join(HERE, "properties.jsonl"))]
checks, na = [], []
for p in props:
    pid = p["id"]
    r = rules.get(pid)
    if not r or not r.get("claimed"):
        na.append({"property_id": pid, "reason": (r or {}).get("reason", "check not built yet")})
        continue
    checks.append({
        "property_id": pid,
        "quick_cmd": "./check %s --tier quick" % pid,
        "thorough_cmd": "./check %s --tier thorough" % pid,
        "evidence_file": "/verif/evidence/%s.json" % pid,
        "replay_cmd_template": "./check %s --replay {path}" % pid,
        "engine": "harness",
        "level_claimed": {"category": r.get("level", "exploration"), "text": r["level_text"], "design_ref": "DESIGN.md section 3, " + pid},
        "level_note": r["level_note"],
        "technique": r["technique"],
    })
m = {
    "version": 1,
    "setup_cmd": "./setup.sh",
    "hooks": {
        "guard": "verif",
        "enable": "go build tag: -tags verif (used by ./check for C14 and C16, whose test files carry the same tag)",
        "baseline_off_cmd": "cd /repo && GOFLAGS=-mod=mod GOPROXY=off GOSUMDB=off GOTOOLCHAIN=local go test -json -vet=off -count=1 -timeout 25m ./...",
        "source_commits": json.load(open(os.path.join(HERE, "hooks.json")))["source_commits"] if os.path.exists(os.path.join(HERE, "hooks.json")) else [],
        "add_only": True,
    },
    "engines": [{"name": "harness", "path": "/verif/harness", "serves_properties": [c["property_id"] for c in checks],
                 "kind_free_text": "Go module: rapid v1.3.0 property-based tests, exhaustive enumerators and native go fuzz targets; goja as reference JavaScript parser/engine; driven by /verif/check"}],
    "checks": checks,
    "not_applicable": na,
    "notes": "Every check is generated-input search against an explicit oracle (see DESIGN.md). Exit 2 from ./check means 'could not decide' (harness self-check, build failure, time-out) and never prints a VIOLATION line.",
}
json.dump(m, open(os.path.join(HERE, "MANIFEST.json"), "w"), indent=1)
print("claimed:", [c["property_id"] for c in checks], "not claimed:", [n["property_id"] for n in na])
