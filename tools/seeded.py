#!/usr/bin/env python3
"""Seeded changes (written by independent sub-agents, kept under /verif/seeded/<id>/).

  tools/seeded.py import <property> <srcdir> <name>   confirm a candidate (patch.diff, demo_test.go, notes.md)
                                                      in a scratch worktree and, if it is confirmed, keep it
                                                      as /verif/seeded/<name>/ with meta.json
  tools/seeded.py run [--all] [--tier quick|thorough] [name ...]
                                                      run the property's check (or every check with --all)
                                                      against each kept change applied to a scratch worktree
                                                      (never /repo itself) and record the outcome in
                                                      /verif/seeded/<name>/meta.json and seeded/RESULTS.md
Confirmation = the patch applies to /repo's HEAD, `go build ./...` succeeds, the repository's own
test suite passes with it, the demonstration fails with it and passes without it.
"""
import json, os, shutil, subprocess, sys, time
VERIF = os.path.dirname(os.path.dirname(os.path.abspath(__file__)))
SEEDED = os.path.join(VERIF, "seeded")
ENV = dict(os.environ, GOFLAGS="-mod=mod", GOPROXY="off", GOSUMDB="off", GOTOOLCHAIN="local")


def sh(cmd, cwd=None, timeout=1800, env=None):
    try:
        r = subprocess.run(cmd, cwd=cwd, env=env or ENV, shell=isinstance(cmd, str), stdout=subprocess.PIPE, stderr=subprocess.STDOUT, text=True, errors="replace", timeout=timeout)
        return r.returncode, r.stdout
    except subprocess.TimeoutExpired as e:
        return -9, "timeout"


def worktree(tag):
    wt = "/tmp/seedrun/%s-%d" % (tag, os.getpid())
    os.makedirs("/tmp/seedrun", exist_ok=True)
    subprocess.run(["git", "-C", "/repo", "worktree", "add", "-q", "--detach", wt, "HEAD"], check=True)
    return wt


def drop(wt):
    subprocess.run(["git", "-C", "/repo", "worktree", "remove", "--force", wt])
    shutil.rmtree(wt + ".out", ignore_errors=True)


def confirm(src):
    """returns (ok, record)"""
    rec = {}
    wt = worktree("confirm")
    try:
        demo_dir = os.path.join(wt, "verifdemo")
        os.makedirs(demo_dir)
        for fn in os.listdir(src):
            if fn.endswith("_test.go") or (fn.endswith(".go") and fn != "patch.diff"):
                shutil.copy(os.path.join(src, fn), demo_dir)
        rc, out = sh("go test -vet=off -count=1 ./verifdemo/", cwd=wt, timeout=600)
        rec["demo_without_change"] = "pass" if rc == 0 else "FAIL"
        if rc != 0:
            rec["detail"] = out[-1500:]
            return False, rec
        rc, out = sh(["git", "apply", os.path.join(src, "patch.diff")], cwd=wt)
        if rc != 0:
            rec["apply"] = out[-500:]
            return False, rec
        rc, out = sh("go build ./...", cwd=wt)
        rec["build"] = "ok" if rc == 0 else "FAIL"
        if rc != 0:
            return False, rec
        shutil.move(demo_dir, wt + ".demo")
        rc, out = sh("go test -vet=off -count=1 ./...", cwd=wt, timeout=900)
        rec["existing_tests_with_change"] = "pass" if rc == 0 else "FAIL"
        shutil.move(wt + ".demo", demo_dir)
        if rc != 0:
            rec["detail"] = out[-1500:]
            return False, rec
        rc, out = sh("go test -vet=off -count=1 ./verifdemo/", cwd=wt, timeout=600)
        rec["demo_with_change"] = "FAIL" if rc != 0 else "pass"
        if rc == 0:
            return False, rec
        rec["demo_failure_excerpt"] = "\n".join([l for l in out.splitlines() if l.strip()][:12])[:1500]
        return True, rec
    finally:
        shutil.rmtree(wt + ".demo", ignore_errors=True)
        drop(wt)


def run_checks(name, props, tier="quick"):
    d = os.path.join(SEEDED, name)
    wt = worktree("run-" + name)
    res = {}
    try:
        rc, out = sh(["git", "apply", os.path.join(d, "patch.diff")], cwd=wt)
        if rc != 0:
            return {"error": "patch does not apply: " + out[-300:]}
        env = dict(ENV, VERIF_REPO=wt, VERIF_OUTDIR=wt + ".out")
        for p in props:
            t0 = time.time()
            rc, out = sh([os.path.join(VERIF, "check"), p, "--tier", tier], cwd=VERIF, env=env, timeout=7200)
            lines = [l for l in out.splitlines() if l.startswith(("VIOLATION", "INCONCLUSIVE", "OK "))]
            msg = ""
            if rc == 1:
                body = [l for l in out.splitlines() if "VIOLATION-CANDIDATE" in l]
                msg = (body[-1] if body else "")[:400]
            res[p] = dict(exit=rc, wall=round(time.time() - t0, 1), verdict=(lines[-1] if lines else "")[:200].replace(wt + ".out", "<out>"), first_failure=msg)
    finally:
        drop(wt)
    return res


def main():
    a = sys.argv[1:]
    if not a:
        print(__doc__); return
    if a[0] == "import":
        prop, src, name = a[1], a[2], a[3]
        ok, rec = confirm(src)
        print(json.dumps(rec, indent=1))
        if not ok:
            print("NOT CONFIRMED"); sys.exit(1)
        d = os.path.join(SEEDED, name)
        os.makedirs(d, exist_ok=True)
        for fn in os.listdir(src):
            shutil.copy(os.path.join(src, fn), d)
        meta = dict(name=name, property=prop, origin="independent sub-agent given only the property text and a scratch worktree",
                    needs="see notes.md", confirmed=rec,
                    confirmed_how="scratch worktree of /repo HEAD: demo passes; git apply patch.diff; go build ./...; go test -vet=off -count=1 ./... passes; demo fails")
        json.dump(meta, open(os.path.join(d, "meta.json"), "w"), indent=1)
        print("kept as", d)
        return
    if a[0] == "rebase":
        # re-create the patches that no longer apply to /repo's HEAD (a later fix: commit touched
        # neighbouring lines) with a 3-way merge, keep the previous version, confirm again
        head = subprocess.run(["git", "-C", "/repo", "log", "--format=%h", "-1"], stdout=subprocess.PIPE, text=True).stdout.strip()
        for name in sorted(n for n in os.listdir(SEEDED) if os.path.isdir(os.path.join(SEEDED, n))):
            d = os.path.join(SEEDED, name)
            wt = worktree("rebase-" + name)
            try:
                rc, _ = sh(["git", "apply", "--check", os.path.join(d, "patch.diff")], cwd=wt)
                if rc == 0:
                    continue
                rc, out = sh(["git", "apply", "--3way", os.path.join(d, "patch.diff")], cwd=wt)
                if rc != 0:
                    print(name, "NEEDS A MANUAL REBASE:", out[-300:].replace("\n", " "))
                    continue
                diff = subprocess.run(["git", "diff", "HEAD"], cwd=wt, stdout=subprocess.PIPE, text=True).stdout
                rc, out = sh("go build ./...", cwd=wt)
                if rc != 0:
                    print(name, "rebased patch does not build"); continue
                meta = json.load(open(os.path.join(d, "meta.json")))
                prev = meta.get("patch_base", "d597d54")
                keep = os.path.join(d, "patch.base-%s.diff" % prev)
                if not os.path.exists(keep):
                    shutil.copy(os.path.join(d, "patch.diff"), keep)
                open(os.path.join(d, "patch.diff"), "w").write(diff)
            finally:
                drop(wt)
            ok, rec = confirm(d)
            meta = json.load(open(os.path.join(d, "meta.json")))
            meta["confirmed"], meta["patch_base"] = rec, head
            meta["rebased"] = "patch.diff was rebased (3-way) onto /repo %s because a later fix: commit touched neighbouring lines; earlier versions are kept as patch.base-<commit>.diff; re-confirmed after rebasing" % head
            json.dump(meta, open(os.path.join(d, "meta.json"), "w"), indent=1)
            print(name, "rebased onto", head, "confirmed" if ok else "NOT CONFIRMED", {k: v for k, v in rec.items() if k in ("demo_without_change", "demo_with_change", "existing_tests_with_change")})
        return
    if a[0] == "run":
        allp = "--all" in a
        tier = "quick"
        if "--tier" in a:
            i = a.index("--tier"); tier = a[i + 1]; del a[i:i + 2]
        part = None
        if "--part" in a:
            i = a.index("--part"); part = tuple(int(x) for x in a[i + 1].split("/")); del a[i:i + 2]
        names = [x for x in a[1:] if not x.startswith("--")] or sorted(n for n in os.listdir(SEEDED) if os.path.isdir(os.path.join(SEEDED, n)))
        if part:
            names = [n for i, n in enumerate(names) if i % part[1] == part[0]]
        for name in names:
            mp = os.path.join(SEEDED, name, "meta.json")
            meta = json.load(open(mp))
            props = ["C%02d" % i for i in range(1, 17)] if allp else [meta["property"]]
            res = run_checks(name, props, tier)
            meta = json.load(open(mp))  # re-read: descriptive fields may have been edited meanwhile
            key = "checks_%s" % tier
            meta.setdefault(key, {}).update(res)
            meta["detected_by"] = sorted({p for k in meta if k.startswith("checks_") for p, v in meta[k].items() if isinstance(v, dict) and v.get("exit") == 1})
            meta["ran"] = "tools/seeded.py run (patch applied to a scratch worktree, ./check <id> with VERIF_REPO pointing at it)"
            json.dump(meta, open(mp, "w"), indent=1)
            print(name, meta["property"], {p: v.get("exit") for p, v in res.items() if isinstance(v, dict)}, flush=True)
        return
    print(__doc__)


if __name__ == "__main__":
    main()
