#!/usr/bin/env python3
"""Regenerates /verif/known_findings.json from the table below; witnesses come
from the harness (`VERIF_DUMP=1 go test -run TestWitnessJSON`).  Run by hand
when a finding is recorded or fixed - never by a check."""
import json, os, subprocess
HERE = os.path.dirname(os.path.dirname(os.path.abspath(__file__)))
env = dict(os.environ, GOFLAGS="-mod=mod", GOPROXY="off", GOSUMDB="off", GOTOOLCHAIN="local", VERIF_DUMP="1")
out = ""
for pkg in ("./props/",):
    if not [f for f in os.listdir(os.path.join(HERE, "harness", pkg)) if f.endswith("_test.go")]:
        continue
    out += subprocess.run(["go", "test", pkg, "-tags", "verif", "-run", "TestWitnessJSON", "-v"], cwd=os.path.join(HERE, "harness"), env=env, capture_output=True, text=True).stdout
wit = {}
for line in out.splitlines():
    if line.startswith("WITNESS "):
        _, name, js = line.split(" ", 2)
        wit[name] = json.loads(js)

# (property, id, status, commit, description[, classifier])
TABLE = json.load(open(os.path.join(HERE, "tools", "findings_table.json")))
findings = []
for e in TABLE:
    name = e["property"] + "/" + e["id"]
    if name not in wit:
        raise SystemExit("no witness for " + name)
    d = dict(property=e["property"], id=e["id"], status=e["status"], classifier=e.get("classifier", e["id"]), witness=wit[name], description=e["description"])
    if e.get("commit"):
        d["commit"] = e["commit"]
    findings.append(d)
lines = []
for f in findings:
    if f["status"] == "fixed":
        lines.append("fixed: property=%s %s %s" % (f["property"], f.get("commit", "?"), f["description"]))
    else:
        lines.append("known: property=%s %s" % (f["property"], f["description"]))
json.dump({"format": "status 'known' entries suppress exactly the failures whose classifier tag they name (and are printed as KNOWN-FINDING by the checks); 'fixed' entries suppress nothing - their witnesses are regression inputs.", "summary": lines, "findings": findings}, open(os.path.join(HERE, "known_findings.json"), "w"), indent=1, ensure_ascii=False)
print("\n".join(lines))
