#!/usr/bin/env python3
"""Hand-written sensitivity mutants (DESIGN.md section 6).

  tools/mutants.py list
  tools/mutants.py run [--wt DIR] [--part K/N] [--all] [ID ...]
                                     apply each mutant to a scratch git worktree of /repo
                                     (DIR, default /tmp/mut/w0, created if missing - never
                                     /repo itself), run the repository's own tests and the
                                     quick tier of the listed properties against that
                                     worktree (VERIF_REPO), revert, and record the outcome in
                                     /verif/mutants/results.json (results.K.json with --part)
  tools/mutants.py merge             merge results.K.json into results.json

A mutant is (id, properties expected to catch it, file, old text, new text[, expect]).
expect = "kill" (default) or "survive" (behaviour-preserving change that must NOT alarm).
"""
import json, os, subprocess, sys, time
REPO = "/tmp/mut/w0"
VERIF = os.path.dirname(os.path.dirname(os.path.abspath(__file__)))
ENV = dict(os.environ, GOFLAGS="-mod=mod", GOPROXY="off", GOSUMDB="off", GOTOOLCHAIN="local")

M = []
def m(id, props, file, old, new, expect="kill", note=""):
    M.append(dict(id=id, props=props, file=file, old=old, new=new, expect=expect, note=note))

# ---- printer (C01 C03 C06)
m("M01", ["C03", "C01"], "ast/ast.go", "rightNeedsParens := be.Right.Precedence() <= myPrecedence", "rightNeedsParens := be.Right.Precedence() < myPrecedence", note="right operand of equal precedence loses its parentheses")
m("M02", ["C01", "C03", "C06"], "ast/ast.go", 'cw.WriteString("return")\n\tif rs.ReturnValue != nil {\n\t\tcw.WriteRune(\' \')', 'cw.WriteString("return")\n\tif rs.ReturnValue != nil {\n\t\tcw.WriteSpace()', note="space after return only in pretty mode")
m("M03", ["C01", "C03"], "ast/ast.go", "\tcae.Left.WriteTo(cw)\n\tcw.WriteSpace()\n\tcw.WriteLeadingComments(cae.Token.LeadingComments)\n\tcw.AddMapping(cae.Token.Start)\n\tcw.WriteString(cae.Operator)\n\tcw.WriteRune('=')\n\tcw.WriteSpace()\n\tcae.Value.WriteTo(cw)", "\tcae.Value.WriteTo(cw)\n\tcw.WriteSpace()\n\tcw.WriteLeadingComments(cae.Token.LeadingComments)\n\tcw.AddMapping(cae.Token.Start)\n\tcw.WriteString(cae.Operator)\n\tcw.WriteRune('=')\n\tcw.WriteSpace()\n\tcae.Left.WriteTo(cw)", note="compound assignment operands swapped")
m("M04", ["C01", "C03"], "parser/parser_functions.go", 'case token.MINUS_ASSIGN:\n\t\texpression.Operator = "-"', 'case token.MINUS_ASSIGN:\n\t\texpression.Operator = "+"', note="-= printed as +=")
m("M12", ["C03", "C01"], "ast/ast.go", "case token.MULTIPLY, token.DIVIDE, token.MODULO:\n\t\treturn PrecedenceProduct", "case token.MULTIPLY, token.DIVIDE:\n\t\treturn PrecedenceProduct\n\tcase token.MODULO:\n\t\treturn PrecedenceSum", note="printer thinks % binds like +")
m("M13", [], "ast/ast.go", "if ue.Right.Precedence() < PrecedenceUnary {", "if ue.Right.Precedence() <= PrecedenceUnary {", expect="survive", note="over-parenthesising only: must not alarm")
m("M14", ["C03", "C01", "C06"], "ast/ast.go", "\t// Grouped expressions have atomic precedence because parens are explicit\n\treturn PrecedenceAtomic", "\treturn PrecedenceLowest", note="grouping nodes get double parentheses everywhere (harmless) - may survive", expect="either")
m("M15", ["C03"], "ast/ast.go", "if pe.Left.Precedence() < PrecedencePostfix {", "if false {", note="postfix operand never parenthesised (only reachable with invalid targets)", expect="either")
m("M15b", ["C03", "C01"], "ast/ast.go", "leftNeedsParens := be.Left.Precedence() < myPrecedence", "leftNeedsParens := be.Left.Precedence() < myPrecedence-1", note="left operand one level looser keeps no parentheses")
m("M76", ["C01", "C03"], "ast/ast.go", "\tcw.WriteSignSeparator(ue.Operator)\n", "", note="sign fusion returns")
m("M77", ["C01"], "ast/ast.go", "if il, ok := me.Object.(*IntegerLiteral); ok && !me.Computed && isDecimalDigits(il.Token.Literal) {\n\t\t// `1.prop`", "if il, ok := me.Object.(*IntegerLiteral); ok && !me.Computed && isDecimalDigits(il.Token.Literal) && len(il.Token.Literal) > 1 {\n\t\t// `1.prop`", note="single-digit integer receivers lose their parentheses")
# ---- parser (C02)
m("M06", ["C02"], "parser/parser.go", "\tLOGICAL_OR  // ||\n\tLOGICAL_AND // &&", "\tLOGICAL_AND // &&\n\tLOGICAL_OR  // ||", note="|| and && levels swapped")
m("M07", ["C02"], "parser/parser_functions.go", "\tprecedence := p.currentPrecedence()\n\tp.NextToken()\n\texpression.Right = p.expressionParseFn(p, precedence)\n\treturn expression", "\tprecedence := p.currentPrecedence()\n\tp.NextToken()\n\texpression.Right = p.expressionParseFn(p, precedence-1)\n\treturn expression", note="binary operators right-associative")
m("M08", ["C02"], "parser/parser_functions.go", "\texpression := &ast.AssignmentExpression{\n\t\tToken: p.CurrentToken,\n\t\tLeft:  left,\n\t}\n\tp.NextToken()\n\texpression.Value = p.ParseExpression()", "\texpression := &ast.AssignmentExpression{\n\t\tToken: p.CurrentToken,\n\t\tLeft:  left,\n\t}\n\tp.NextToken()\n\texpression.Value = p.ParseExpressionWithPrecedence(ASSIGNMENT)", note="assignment chains left-associative")
m("M09", ["C02"], "parser/parser_functions.go", "\tp.NextToken()\n\texpression.Right = p.expressionParseFn(p, UNARY)\n\treturn expression", "\tp.NextToken()\n\texpression.Right = p.expressionParseFn(p, LOWEST)\n\treturn expression", note="unary operand swallows the rest of the expression")
m("M10", ["C02", "C13"], "parser/parser_functions.go", "\tif p.PeekToken.Type == token.RBRACE {\n\t\treturn true\n\t}\n\tif !p.PeekToken.AfterNewline {", "\tif !p.PeekToken.AfterNewline {", note="no ASI before }")
m("M11", ["C02", "C10"], "lexer/lexer.go", "\t\t\tif l.CurrentChar == '\\n' {\n\t\t\t\tl.hadNewlineBefore = true\n\t\t\t\tl.leadingComments = append(l.leadingComments, \"\")", "\t\t\tif l.CurrentChar == '\\r' {\n\t\t\t\tl.hadNewlineBefore = true\n\t\t\t\tl.leadingComments = append(l.leadingComments, \"\")", note="AfterNewline computed from CR")
m("M78", ["C02"], "parser/parser_functions.go", "&& !p.PeekToken.AfterNewline {\n\t\tp.NextToken()\n\t\tstmt.ReturnValue", "{\n\t\tp.NextToken()\n\t\tstmt.ReturnValue", note="restricted production after return dropped again")
m("M79", ["C02"], "parser/parser.go", "\ttoken.LTE:          COMPARISON,", "\ttoken.LTE:          EQUALITY,", note="<= binds like ==")
# ---- interceptors (C04)
m("M16", ["C04"], "parser/parser.go", "\tfor i := len(opts.stmtInterceptors) - 1; i >= 0; i-- {\n\t\tp.useStatementInterceptor(opts.stmtInterceptors[i])\n\t}", "\tfor i := 0; i < len(opts.stmtInterceptors); i++ {\n\t\tp.useStatementInterceptor(opts.stmtInterceptors[i])\n\t}", note="statement interceptors LIFO")
m("M17", ["C04"], "parser/parser.go", "\t\tdefer func() {\n\t\t\tp.currentExpressionPrecedence = oldPrecedence\n\t\t}()\n", "\t\t_ = oldPrecedence\n", note="expression precedence not restored")
m("M18", ["C04"], "parser/parser_functions.go", "return p.ParseRemainingExpressionWithPrecedence(left, p.currentExpressionPrecedence)", "return p.ParseRemainingExpressionWithPrecedence(left, LOWEST)", note="ParseRemainingExpression ignores the binding power")
m("M19", ["C04", "C10"], "lexer/lexer.go", "\t\treturn interceptor(l, func() token.Token {\n\t\t\treturn next(l)\n\t\t})", "\t\treturn interceptor(l, func() token.Token {\n\t\t\tl.readLeadingComments()\n\t\t\treturn next(l)\n\t\t})", note="token interceptor chain re-reads trivia (positions differ at entry)", expect="either")
m("M80", ["C04"], "parser/parser.go", "\tfor i := len(opts.expInterceptors) - 1; i >= 0; i-- {\n\t\tp.useExpressionInterceptor(opts.expInterceptors[i])\n\t}", "\tfor i := len(opts.expInterceptors) - 1; i >= 1; i-- {\n\t\tp.useExpressionInterceptor(opts.expInterceptors[i])\n\t}\n\tif len(opts.expInterceptors) > 0 {\n\t\tp.useExpressionInterceptor(opts.expInterceptors[0])\n\t\tif len(opts.expInterceptors) > 3 {\n\t\t\tp.useExpressionInterceptor(opts.expInterceptors[0])\n\t\t}\n\t}", note="first expression interceptor runs twice when more than three are installed")
# ---- custom operators (C05)
m("M20", ["C05"], "parser/parser.go", "\t\t\tprecedence := p.currentPrecedence()\n\t\t\tp.NextToken()\n\t\t\treturn p.expressionParseFn(p, precedence)", "\t\t\tprecedence := p.currentPrecedence()\n\t\t\tp.NextToken()\n\t\t\treturn p.expressionParseFn(p, precedence-1)", note="registered infix right-associative")
m("M21", ["C05"], "parser/parser.go", "p.precedences[tokenType] = CALL // highest precedence", "p.precedences[tokenType] = POSTFIX // highest precedence", note="registered postfix at postfix level")
m("M22", ["C05", "C14"], "lexer/builder.go", "\tif tokenType, exists := lb.dynamicTokens[name]; exists {\n\t\treturn tokenType\n\t}\n", "", note="token type ids not memoised")
m("M23", ["C05"], "parser/builder.go", "\tif pb.registeredPrefixOps[tokenType] {\n\t\treturn fmt.Errorf(\"duplicate prefix operator: %s\", tokenType)\n\t}\n", "\tif pb.registeredPrefixOps[tokenType] && tokenType < token.DYNAMIC_TOKENS_START {\n\t\treturn fmt.Errorf(\"duplicate prefix operator: %s\", tokenType)\n\t}\n", note="duplicate prefix check only for built-ins")
m("M24", ["C05"], "parser/builder.go", "\tif pb.registeredInfixOps[tokenType] {\n\t\treturn fmt.Errorf(\"duplicate infix operator: %s\", tokenType)\n\t}\n\tpb.infixOperators", "\tdup := pb.registeredInfixOps[tokenType]\n\tdefer func() { _ = dup }()\n\tpb.infixOperators", note="duplicate infix accepted", )
m("M81", ["C05"], "parser/parser.go", "\t\t\treturn p.expressionParseFn(p, UNARY)\n\t\t}\n\t\treturn createExpr(p.CurrentToken, right)", "\t\t\treturn p.expressionParseFn(p, PRODUCT)\n\t\t}\n\t\treturn createExpr(p.CurrentToken, right)", note="registered prefix operand parsed at product level")
# ---- pretty printer (C06 C15)
m("M25", ["C06"], "ast/code_writer_format.go", "\tif n := len(cw.pendings); n == 0 || cw.pendings[n-1] != ' ' {\n\t\tcw.pendings = append(cw.pendings, ' ')\n\t}", "\tcw.pendings = append(cw.pendings, ' ')", note="duplicate pending spaces", expect="either")
m("M26", ["C06", "C15"], "ast/code_writer_format.go", "\tcw.clearPending()\n\tcw.pendings = append(cw.pendings, '\\n')", "\tcw.pendings = append(cw.pendings, '\\n')", note="WriteNewline does not clear pendings", expect="either")
m("M27", ["C06"], "ast/ast.go", "\tcw.WriteLeadingComments(ge.RParen.LeadingComments)\n\tcw.DecreaseIndent()", "\tcw.WriteLeadingComments(ge.RParen.LeadingComments)", note="indent level leaks out of grouped expressions")
m("M28", ["C06"], "compiler/compiler.go", 'lines[i] = strings.TrimRight(line, " ")', 'lines[i] = strings.TrimRight(line, " \\t")', note="trailing tabs trimmed too", expect="either")
m("M29", ["C06", "C15"], "ast/code_writer_comments.go", "\t\t\tcw.writeNewline()\n\t\t\tcw.writeIndent()", "\t\t\tcw.writeNewline()", note="comment replay without indentation", expect="either")
m("M82", ["C06"], "ast/code_writer.go", "\tcw.semiOmitted = true\n}", "}", note="omitted-semicolon guard disabled")
m("M83", ["C06", "C07"], "compiler/compiler.go", "\t\tif !insideRange(literalRanges, lineEnd) {\n\t\t\tlines[i] = strings.TrimRight(line, \" \")\n\t\t}", "\t\tlines[i] = strings.TrimRight(line, \" \")", note="literal-aware trim removed")
# ---- literals (C07)
m("M30", ["C07"], "lexer/helpers.go", "\tif ch >= 'A' && ch <= 'F' {\n\t\treturn int(ch - 'A' + 10)", "\tif ch >= 'A' && ch <= 'F' {\n\t\treturn int(ch - 'A' + 11)", note="upper-case hex digits off by one")
m("M31", ["C07"], "lexer/helpers.go", "} else if codePoint <= 0x7FF {", "} else if codePoint <= 0x7FE {", note="U+07FF encoded with three bytes")
m("M32", ["C07"], "lexer/lexer.go", "if !isHexDigit(nextChar) || len(hexDigits) >= 6 {", "if !isHexDigit(nextChar) || len(hexDigits) >= 5 {", expect="either", note="\\u{...} limited to 5 digits: equivalent - the lexer then keeps the escape as raw text and the printer passes raw escape text through unchanged, so the emitted literal is identical")
m("M33", ["C07", "C01"], "lexer/lexer.go", "\t\t\t\tresult.WriteByte('\\\\')\n\t\t\t\tl.ReadChar()\n\t\t\t\tresult.WriteByte(l.CurrentChar)\n\t\t\t\tcontinue", "\t\t\t\tresult.WriteByte('\\\\')\n\t\t\t\tl.ReadChar()\n\t\t\t\tcontinue", note="raw string drops the character after a backslash")
m("M34", ["C07", "C10"], "lexer/lexer.go", "\t\tif l.CurrentChar == '+' || l.CurrentChar == '-' {\n\t\t\tl.ReadChar() // consume the sign\n\t\t}", "\t\tif l.CurrentChar == '+' {\n\t\t\tl.ReadChar() // consume the sign\n\t\t}", note="negative exponent sign not consumed")
m("M84", ["C07"], "lexer/helpers.go", "\tcase '\"', '\\'', '\\\\', '\\n', '\\r', 0x2028, 0x2029:", "\tcase '\"', '\\'', '\\\\', '\\n', 0x2028, 0x2029:", note="decoded CR written raw into string literals")
m("M85", ["C07"], "ast/ast.go", "\t\tcase '\"':\n\t\t\tresult.WriteString(\"\\\\\\\"\")", "\t\tcase '\"':\n\t\t\tif i > 0 {\n\t\t\t\tresult.WriteString(\"\\\\\\\"\")\n\t\t\t} else {\n\t\t\t\tresult.WriteByte('\"')\n\t\t\t}", note="leading double quote of a single-quoted string not escaped")
# ---- source maps (C08 C09)
m("M35", ["C08"], "ast/ast.go", "\tcw.AddNamedMapping(i.Token.Start.Line, i.Token.Start.Column, i.Value)\n\tcw.WriteString(i.Value)", "\tcw.WriteString(i.Value)\n\tcw.AddNamedMapping(i.Token.Start.Line, i.Token.Start.Column, i.Value)", note="identifier mapping recorded after the write")
m("M36", ["C08"], "ast/code_writer.go", "\tif r == '\\n' {\n\t\tcw.Mapper.AdvanceLine()\n\t} else {\n\t\tcw.Mapper.AdvanceColumn(1)\n\t}", "\tif r == '\\n' {\n\t\tcw.Mapper.AdvanceLine()\n\t} else if r != ';' {\n\t\tcw.Mapper.AdvanceColumn(1)\n\t}", note="semicolons do not advance the generated column")
m("M37", ["C08", "C10"], "lexer/base_functions.go", "\t\tStart:           token.Position{Line: startLine, Column: startColumn},", "\t\tStart:           token.Position{Line: startLine, Column: startColumn + 1},", note="multi-character tokens start one column late")
m("M38", ["C08"], "ast/ast.go", "\tfor i, param := range fd.Parameters {\n\t\tif i > 0 {\n\t\t\tcw.WriteRune(',')\n\t\t\tcw.WriteSpace()\n\t\t}\n\t\tparam.WriteTo(cw)", "\tfor i, param := range fd.Parameters {\n\t\tif i > 0 {\n\t\t\tcw.WriteRune(',')\n\t\t\tcw.WriteSpace()\n\t\t}\n\t\tcw.AddNamedMapping(fd.Name.Token.Start.Line, fd.Name.Token.Start.Column, fd.Name.Value)\n\t\tcw.WriteString(param.Value)", note="parameters mapped with the function's name token")
m("M86", ["C08"], "ast/code_writer_format.go", "\tcw.Builder.WriteString(s)\n\tif cw.Mapper != nil {\n\t\tcw.Mapper.AdvanceString(s)\n\t}", "\tcw.Builder.WriteString(s)\n\tif cw.Mapper != nil && s != \"//\" {\n\t\tcw.Mapper.AdvanceString(s)\n\t}", note="comment marker not counted in generated column (only matters for tokens after a comment on the same line)", expect="either")
m("M39", ["C09", "C08"], "sourcemap/vlq.go", "\t\tif n > 0 {\n\t\t\tdigit |= 0x20", "\t\tif n > 1 {\n\t\t\tdigit |= 0x20", note="continuation bit missing when one group remains")
m("M40", ["C09", "C08"], "sourcemap/sourcemap.go", "\t\t\tprevGeneratedColumn = 0 // Reset column for new line\n", "", note="generated column not reset per line")
m("M41", ["C09", "C08"], "sourcemap/sourcemap.go", "\t\tif mapping.HasName {\n\t\t\tresult.WriteString(encodeVLQ(mapping.NameIndex - prevNameIndex))\n\t\t\tprevNameIndex = mapping.NameIndex\n\t\t}", "\t\tif mapping.HasName {\n\t\t\tresult.WriteString(encodeVLQ(mapping.NameIndex - prevNameIndex))\n\t\t}\n\t\tprevNameIndex = mapping.NameIndex", note="name delta state updated by unnamed segments")
m("M42", ["C09", "C08"], "sourcemap/sourcemap.go", "\t\tif segmentsInCurrentLine > 0 {\n\t\t\tresult.WriteByte(',')\n\t\t}", "\t\tif segmentsInCurrentLine > 0 || currentLine > 0 {\n\t\t\tresult.WriteByte(',')\n\t\t}", note="comma before the first segment of later lines")
m("M43", ["C09"], "sourcemap/sourcemap.go", "\t\t\tif i+1 < len(s) && s[i+1] == '\\n' {\n\t\t\t\ti++ // skip the '\\n' in '\\r\\n'\n\t\t\t}\n", "", note="\\r\\n counted as two line breaks", expect="baseline")
m("M87", ["C09"], "sourcemap/sourcemap.go", "\tnameIdx, exists := m.nameIndex[name]\n\tif !exists {", "\tnameIdx, exists := m.nameIndex[name]\n\tif !exists || name == \"\" {", note="empty name interned again on every use")
# ---- lexer (C10)
m("M44", ["C10", "C08"], "lexer/lexer.go", "\t\tl.Line++\n\t\tl.Column = -1 // Will become 0 after increment below", "\t\tl.Line++\n\t\tl.Column = 0 // Will become 0 after increment below", note="columns after a line break off by one")
m("M45", ["C10"], "lexer/lexer.go", "\tfor isLetter(l.CurrentChar) || isDigit(l.CurrentChar) {\n\t\tl.ReadChar()\n\t}\n\treturn l.input[position:l.position]", "\tfor isLetter(l.CurrentChar) || isDigit(l.CurrentChar) || (l.CurrentChar == '-' && isLetter(l.PeekChar()) && l.position > position+6) {\n\t\tl.ReadChar()\n\t}\n\treturn l.input[position:l.position]", note="long identifiers swallow a following minus sign")
m("M46", ["C10", "C15"], "lexer/lexer.go", "\t\t\tfor l.CurrentChar != '\\n' && !l.atEOF() {\n\t\t\t\tcomment.WriteByte(l.CurrentChar)\n\t\t\t\tl.ReadChar()\n\t\t\t}", "\t\t\tfor l.CurrentChar != '\\n' && !l.atEOF() {\n\t\t\t\tcomment.WriteByte(l.CurrentChar)\n\t\t\t\tl.ReadChar()\n\t\t\t\tif l.CurrentChar == '\\r' && l.PeekChar() == '\\n' {\n\t\t\t\t\tl.ReadChar()\n\t\t\t\t\tbreak\n\t\t\t\t}\n\t\t\t}", note="comment ending in CRLF leaves the LF to the next token's trivia (extra blank line)", expect="either")
m("M47", ["C10", "C02"], "lexer/lexer.go", "func (l *Lexer) readLeadingComments() {\n\tl.hadNewlineBefore = false", "func (l *Lexer) readLeadingComments() {", note="AfterNewline sticky")
m("M48", ["C10", "C02"], "lexer/base_functions.go", "\tcase '<':\n\t\tif l.PeekChar() == '=' {", "\tcase '<':\n\t\tif l.PeekChar() == '=' && l.Column > 0 {", note="<= at column 0 lexed as < and =", expect="either")
m("M88", ["C10"], "lexer/lexer.go", "\tif l.readPosition > len(l.input) {\n\t\treturn\n\t}\n", "", note="EOF drift returns")
# ---- parser totality (C11)
m("M49", ["C11"], "parser/base_parser_functions.go", "\tcase token.WHILE:\n\t\tif stmt := p.ParseWhileStatement(); stmt != nil {\n\t\t\treturn stmt\n\t\t}", "\tcase token.WHILE:\n\t\treturn p.ParseWhileStatement()", note="typed nil for failed while statements")
m("M50", ["C11"], "parser/parser.go", "\tif len(p.errors) > 0 {\n\t\treturn program, fmt.Errorf", "\tif len(p.errors) > 1 {\n\t\treturn program, fmt.Errorf", note="nil error value when exactly one error")
m("M51", ["C11"], "parser/parser.go", "\trng := Range{\n\t\tStart: tok.Start,\n\t\tEnd:   tok.End,\n\t}", "\trng := Range{\n\t\tStart: tok.Start,\n\t\tEnd:   p.PeekToken.End,\n\t}", note="error range spans to the peek token")
m("M52", ["C11"], "parser/parser_functions.go", "\tif infix == nil {\n\t\treturn left\n\t}\n\tp.NextToken()\n\treturn infix(left)", "\tif infix == nil {\n\t\treturn left\n\t}\n\tif p.PeekToken.Type != token.MODULO || p.CurrentToken.Type != token.RBRACKET {\n\t\tp.NextToken()\n\t}\n\treturn infix(left)", note="`] %` does not advance (hang or wrong tree)")
m("M53", ["C11"], "parser/parser_functions.go", "\t\tkey := p.ParseExpression()\n\t\tif !p.ExpectToken(token.COLON) {\n\t\t\treturn nil\n\t\t}", "\t\tkey := p.ParseExpression()\n\t\tif !p.ExpectToken(token.COLON) {\n\t\t\tp.errors = p.errors[:len(p.errors)-1]\n\t\t\tobj.Properties = append(obj.Properties, ast.ObjectProperty{Key: key})\n\t\t\treturn obj\n\t\t}", note="object literal with a nil value and no error")
# ---- strict errors (C12)
m("M54", ["C12"], "parser/parser_functions.go", "\tstmt.Condition = p.ParseExpression()\n\tif !p.ExpectToken(token.RPAREN) {\n\t\treturn nil\n\t}\n\tp.NextToken()\n\tstmt.ThenBranch", "\tstmt.Condition = p.ParseExpression()\n\tif p.PeekToken.Type == token.RPAREN {\n\t\tp.NextToken()\n\t}\n\tp.NextToken()\n\tstmt.ThenBranch", note="missing ) after if condition tolerated")
m("M55", ["C12", "C13"], "parser/parser.go", "\tif p.shouldInsertSemicolon() {\n\t\t// Virtual semicolon inserted (no token consumed)\n\t\treturn true\n\t}", "\tif p.shouldInsertSemicolon() || p.PeekToken.Type == token.IDENT {\n\t\t// Virtual semicolon inserted (no token consumed)\n\t\treturn true\n\t}", note="identifier accepted as statement separator")
m("M56", ["C12", "C13"], "parser/parser_functions.go", "\tif p.CurrentToken.Type != token.RBRACE && !p.tolerantMode {\n\t\tp.AddError", "\tif p.CurrentToken.Type != token.RBRACE && !p.tolerantMode && len(p.contextStack) > 3 {\n\t\tp.AddError", note="unclosed block only reported when nested deeply")
m("M57", ["C12"], "parser/parser_functions.go", "\tif prefix == nil {\n\t\tp.AddError(fmt.Sprintf(\"unexpected %s\", p.CurrentToken.Literal))\n\t\treturn nil\n\t}", "\tif prefix == nil {\n\t\tif p.CurrentToken.Type == token.RBRACKET {\n\t\t\treturn &ast.Identifier{Token: p.CurrentToken, Value: \"\"}\n\t\t}\n\t\tp.AddError(fmt.Sprintf(\"unexpected %s\", p.CurrentToken.Literal))\n\t\treturn nil\n\t}", note="`]` in operand position becomes an empty identifier")
# ---- modes (C13)
m("M58", ["C13", "C11"], "parser/parser.go", "\tif p.PeekToken.Type == t {\n\t\tp.NextToken()\n\t\treturn true\n\t}\n\tp.AddErrorAtToken", "\tif p.PeekToken.Type == t {\n\t\tp.NextToken()\n\t\treturn true\n\t}\n\tif p.tolerantMode && t == token.RPAREN {\n\t\treturn true\n\t}\n\tp.AddErrorAtToken", note="tolerant mode forgives a missing )", expect="either")
m("M59", ["C13"], "parser/parser_functions.go", "\t\t\tcase token.LPAREN, token.LBRACKET:\n\t\t\t\t// These tokens after a newline should not continue the expression", "\t\t\tcase token.LPAREN, token.LBRACKET, token.MINUS:\n\t\t\t\t// These tokens after a newline should not continue the expression", note="smart mode also cuts before a line-leading minus")
m("M60", ["C13"], "parser/builder.go", "\t\tsmartSemicolons:  pb.smartSemicolons,", "\t\tsmartSemicolons:  pb.smartSemicolons && !pb.tolerantMode,", note="smart semicolons lost in tolerant mode")
m("M61", ["C13"], "parser/parser_functions.go", "\tif prefix == nil {\n\t\tp.AddError(", "\tif prefix == nil && p.tolerantMode && p.CurrentToken.Type == token.SEMICOLON {\n\t\treturn &ast.NullLiteral{Token: p.CurrentToken}\n\t}\n\tif prefix == nil {\n\t\tp.AddError(", note="tolerant mode turns a stray ; into null", expect="either")
# ---- isolation (C14)
m("M62", ["C14", "C05"], "parser/parser.go", "\tp.precedences = make(map[token.Type]int)\n\tmaps.Copy(p.precedences, precedences)", "\tp.precedences = precedences\n\tmaps.Copy(map[token.Type]int{}, precedences)", note="precedence table aliased instead of copied")
m("M63", ["C14"], "compiler/compiler.go", "func (c *Compiler) Compile(program *ast.Program) CompileResult {\n\tw := ast.CodeWriter{", "var sharedWriter ast.CodeWriter\n\nfunc (c *Compiler) Compile(program *ast.Program) CompileResult {\n\tw := &sharedWriter\n\t*w = ast.CodeWriter{", note="package-level code writer (needs &w -> w)", expect="either")
m("M64", ["C14"], "lexer/base_functions.go", "\t\tLeadingComments: append([]string(nil), l.leadingComments...),\n\t}\n}\n\n// NewTokenAt", "\t\tLeadingComments: l.leadingComments,\n\t}\n}\n\n// NewTokenAt", note="single-character tokens share the comment slice", expect="either")
m("M65", ["C14", "C05"], "lexer/builder.go", "\ttokenType := lb.nextTokenID\n\tlb.nextTokenID++", "\ttokenType := globalNextID\n\tglobalNextID++", note="token id counter package-level (needs var)", )
m("M66", ["C14", "C01"], "compiler/compiler.go", "\tif c.generateSourceMap {\n\t\tsm = w.Mapper.SourceMap()\n\t}", "\tif c.generateSourceMap {\n\t\tsm = w.Mapper.SourceMap()\n\t\tif len(sm.Names) > 40 {\n\t\t\tcode += \"\\n\"\n\t\t}\n\t}", note="source-map path appends a newline for programs with many names", expect="either")
# ---- comments (C15)
m("M67", ["C15"], "ast/ast.go", "\tcw.WriteNewline()\n\tcw.WriteLeadingComments(bs.RBrace.LeadingComments)\n\tcw.WriteIndent()\n\tcw.WriteRune('}')", "\tcw.WriteNewline()\n\tcw.WriteIndent()\n\tcw.WriteRune('}')", note="comments before a closing brace dropped")
m("M68", ["C15"], "lexer/lexer.go", "\t\t\t\tl.hadNewlineBefore = true\n\t\t\t\tl.leadingComments = append(l.leadingComments, \"\")", "\t\t\t\tl.hadNewlineBefore = true", note="blank lines not recorded")
m("M69", ["C15", "C01"], "ast/code_writer_comments.go", "\tif !cw.PrettyPrint || len(comments) == 0 {", "\tif len(comments) == 0 {", note="comments replayed in compact mode")
m("M70", [], "lexer/lexer.go", 'strings.TrimRight(comment.String(), " \\t\\r")', 'strings.TrimRight(comment.String(), " \\t\\r\\f")', expect="survive", note="comment text also right-trimmed of form feeds: must not alarm (modulo trailing white space)")
m("M71", ["C15"], "ast/code_writer_comments.go", "\t\t} else if i == 0 {\n\t\t\tif isComment {", "\t\t} else if i == 0 {\n\t\t\tif !isComment {", note="trailing-comment rule inverted")
m("M90", ["C02", "C01"], "parser/parser_functions.go", "if p.CurrentToken.Type == token.INCREMENT || p.CurrentToken.Type == token.DECREMENT {", "if _, isPostfix := left.(*ast.PostfixExpression); isPostfix {", note="nested postfix update followed by a line-leading ( or [ continues again (fix 008663d undone)")
m("M91", ["C06", "C08"], "lexer/lexer.go", 'strings.TrimRight(comment.String(), " \\t\\r")', 'strings.TrimRight(comment.String(), " \\t")', note="CR of a CRLF line end stays in the comment text (fix aa81149 undone)")
m("M92", ["C06"], "lexer/lexer.go", 'strings.TrimRight(comment.String(), " \\t\\r")', 'strings.TrimRight(comment.String(), " \\r")', expect="either", note="trailing tabs stay in the comment text (fix 54c3eeb undone): harmless since fix 6de87b4 - a comment whose text is trimmed away at the end of the output is re-read as a comment without text, which is kept")
m("M93", ["C15", "C06"], "lexer/lexer.go", 'text = " "', 'text = ""', note="comment without text recorded as a line break again (fix 6de87b4 undone)")
m("M89", ["C15"], "ast/ast.go", "\tcw.WriteLeadingComments(p.EOF.LeadingComments)\n", "", note="comments before end of input dropped again")
# ---- context (C16)
m("M72", ["C16"], "parser/parser_functions.go", "\tp.PushContext(FunctionContext)\n\tdefer p.PopContext()\n\tfe.Body = p.ParseBlockStatement()", "\tp.PushContext(FunctionContext)\n\tfe.Body = p.ParseBlockStatement()", note="function expressions never pop their context")
m("M73", ["C16"], "parser/parser_functions.go", "\tstmt.Parameters = p.ParseFunctionParameters()\n\tif !p.ExpectToken(token.LBRACE) {\n\t\treturn nil\n\t}\n\tp.PushContext(FunctionContext)\n\tdefer p.PopContext()", "\tstmt.Parameters = p.ParseFunctionParameters()\n\tp.PushContext(FunctionContext)\n\tif !p.ExpectToken(token.LBRACE) {\n\t\treturn nil\n\t}\n\tdefer p.PopContext()", note="context leaks when the function body brace is missing")
m("M74", ["C16"], "parser/parser_context.go", "\treturn slices.Contains(p.contextStack, FunctionContext)", "\tn := len(p.contextStack)\n\treturn n > 0 && (p.contextStack[n-1] == FunctionContext || (n > 1 && p.contextStack[n-2] == FunctionContext)) || slices.Contains(p.contextStack[:0], FunctionContext)", note="IsInFunction only looks at the top two entries")
m("M75", [], "parser/parser_functions.go", "\tp.PushContext(BlockContext)\n\tdefer p.PopContext()\n\tp.NextToken()", "\tif p.IsInFunction() || len(p.contextStack) < 2 {\n\t\tp.PushContext(BlockContext)\n\t\tdefer p.PopContext()\n\t}\n\tp.NextToken()", expect="either", note="nested plain blocks outside functions share one context entry: equivalent for the public queries (CurrentContext is Block either way)")

def sh(cmd, cwd=None, timeout=900):
    r = subprocess.run(cmd, cwd=cwd, env=ENV, shell=isinstance(cmd, str), stdout=subprocess.PIPE, stderr=subprocess.STDOUT, text=True, errors="replace", timeout=timeout)
    return r.returncode, r.stdout

def clean():
    sh("git checkout -- . && git status --short", cwd=REPO)

def run_one(mu, all_props=False):
    path = os.path.join(REPO, mu["file"])
    src = open(path).read()
    if src.count(mu["old"]) != 1:
        return dict(id=mu["id"], status="site-not-found(%d)" % src.count(mu["old"]))
    new = src.replace(mu["old"], mu["new"])
    if mu["id"] == "M63":
        new = new.replace("program.WriteTo(&w)", "program.WriteTo(w)")
    if mu["id"] == "M65":
        new = new.replace("// RegisterTokenType creates", "var globalNextID = token.Type(token.DYNAMIC_TOKENS_START)\n\n// RegisterTokenType creates")
    open(path, "w").write(new)
    try:
        rc, out = sh("go build ./... && go vet ./... >/dev/null 2>&1; go build ./...", cwd=REPO)
        if rc != 0:
            return dict(id=mu["id"], status="does-not-compile", detail=out[-400:])
        rc, out = sh("go test -vet=off -count=1 ./...", cwd=REPO)
        res = dict(id=mu["id"], note=mu["note"], expect=mu["expect"], baseline="pass" if rc == 0 else "FAIL", checks={})
        if rc != 0 and mu["expect"] != "baseline":
            res["status"] = "killed-by-existing-tests"
            return res
        diff = subprocess.run("git diff", cwd=REPO, shell=True, stdout=subprocess.PIPE, text=True).stdout
        open(os.path.join(VERIF, "mutants", mu["id"] + ".diff"), "w").write(diff)
        props = mu["props"] or ["C01", "C03", "C06", "C10", "C15"]
        if all_props:
            props = ["C%02d" % i for i in range(1, 17)]
        for p in props:
            t0 = time.time()
            env = dict(ENV, VERIF_REPO=REPO, VERIF_OUTDIR=REPO + ".out")
            r = subprocess.run([os.path.join(VERIF, "check"), p, "--tier", "quick"], cwd=VERIF, env=env, stdout=subprocess.PIPE, stderr=subprocess.STDOUT, text=True, timeout=1800)
            rc, out = r.returncode, r.stdout
            res["checks"][p] = dict(exit=rc, wall=round(time.time() - t0, 1), tail=[l for l in out.splitlines() if l.startswith(("VIOLATION", "INCONCLUSIVE", "OK "))][-1:] )
        killed = [p for p, v in res["checks"].items() if v["exit"] == 1]
        res["killed_by"] = killed
        res["status"] = "killed" if killed else "survived"
        return res
    finally:
        clean()

def main():
    global REPO
    if len(sys.argv) < 2 or sys.argv[1] == "list":
        for mu in M:
            print(mu["id"], mu["props"], mu["expect"], mu["note"])
        return
    os.makedirs(os.path.join(VERIF, "mutants"), exist_ok=True)
    if sys.argv[1] == "merge":
        res = {}
        d = os.path.join(VERIF, "mutants")
        for fn in sorted(os.listdir(d)):
            if fn.startswith("results.") and fn != "results.json" and fn.endswith(".json"):
                res.update(json.load(open(os.path.join(d, fn))))
        order = {mu["id"]: i for i, mu in enumerate(M)}
        res = dict(sorted(res.items(), key=lambda kv: order.get(kv[0], 999)))
        json.dump(res, open(os.path.join(d, "results.json"), "w"), indent=1)
        for k, r in res.items():
            print(k, r.get("status"), r.get("killed_by"), r.get("expect"))
        return
    argv = sys.argv[2:]
    part = None
    if "--wt" in argv:
        i = argv.index("--wt"); REPO = os.path.abspath(argv[i + 1]); del argv[i:i + 2]
    if "--part" in argv:
        i = argv.index("--part"); part = tuple(int(x) for x in argv[i + 1].split("/")); del argv[i:i + 2]
    ids = [a for a in argv if not a.startswith("--")]
    allp = "--all" in argv
    if REPO.rstrip("/") == "/repo":
        print("refusing to mutate /repo itself"); sys.exit(2)
    if not os.path.isdir(REPO):
        subprocess.run(["git", "-C", "/repo", "worktree", "add", "-q", "--detach", REPO, "HEAD"], check=True)
    rp = os.path.join(VERIF, "mutants", "results.json" if not part else "results.%d.json" % part[0])
    results = json.load(open(rp)) if os.path.exists(rp) else {}
    rc, out = sh("git status --short", cwd=REPO)
    if out.strip():
        print("refusing: %s has uncommitted changes" % REPO); sys.exit(2)
    for idx, mu in enumerate(M):
        if ids and mu["id"] not in ids:
            continue
        if part and idx % part[1] != part[0]:
            continue
        r = run_one(mu, allp)
        results[mu["id"]] = r
        print(json.dumps({k: r.get(k) for k in ("id", "status", "killed_by", "baseline", "expect")}), flush=True)
        json.dump(results, open(rp, "w"), indent=1)
    sh("rm -rf %s.out" % REPO)

if __name__ == "__main__":
    main()
