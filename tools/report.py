#!/usr/bin/env python3
"""Regenerates the sensitivity tables of DESIGN.md (between the markers
<!-- BEGIN GENERATED SENSITIVITY --> and <!-- END GENERATED SENSITIVITY -->) from
/verif/mutants/results.json and /verif/seeded/*/meta.json."""
import json, os, re, sys
VERIF = os.path.dirname(os.path.dirname(os.path.abspath(__file__)))
sys.path.insert(0, os.path.join(VERIF, "tools"))


def mutants_table():
    rp = os.path.join(VERIF, "mutants", "results.json")
    if not os.path.exists(rp):
        return "(no mutant results yet)\n"
    res = json.load(open(rp))
    import importlib.util
    spec = importlib.util.spec_from_file_location("mutants", os.path.join(VERIF, "tools", "mutants.py"))
    mod = importlib.util.module_from_spec(spec)
    spec.loader.exec_module(mod)
    defs = {m["id"]: m for m in mod.M}
    out = ["| mutant | change | expected | existing tests | killed by (quick tier) | outcome |", "|---|---|---|---|---|---|"]
    n = dict(killed=0, tests=0, survived_ok=0, survived_bad=0, other=0)
    for mid, r in res.items():
        d = defs.get(mid, {})
        exp = d.get("expect", r.get("expect", "kill"))
        note = d.get("note", r.get("note", "")).replace("|", "\\|")
        st = r.get("status")
        kb = ", ".join(r.get("killed_by") or [])
        if st == "killed-by-existing-tests":
            outcome, base = "not a candidate (the repository's tests fail)", "fail"
            n["tests"] += 1
        elif st == "killed":
            base = "pass"
            if exp == "survive":
                outcome = "**FALSE ALARM**"
                n["other"] += 1
            else:
                outcome = "killed"
                n["killed"] += 1
        elif st == "survived":
            base = "pass"
            if exp in ("survive", "either"):
                outcome = "survives (property still holds: see note)"
                n["survived_ok"] += 1
            else:
                outcome = "**MISSED**"
                n["survived_bad"] += 1
        else:
            outcome, base = st, "-"
            n["other"] += 1
        inconcl = [p for p, v in (r.get("checks") or {}).items() if v.get("exit") == 2]
        if inconcl:
            outcome += " (inconclusive: %s)" % ", ".join(inconcl)
        out.append("| %s | %s | %s | %s | %s | %s |" % (mid, note, exp, base, kb or "-", outcome))
    out.append("")
    out.append("Totals: %d killed by the checks, %d survive as they should (behaviour-preserving or outside every property), %d missed, %d rejected because the repository's own tests already fail, %d other." % (n["killed"], n["survived_ok"], n["survived_bad"], n["tests"], n["other"]))
    return "\n".join(out) + "\n"


def seeded_table():
    d = os.path.join(VERIF, "seeded")
    if not os.path.isdir(d):
        return "(no seeded changes yet)\n"
    out = ["| change | property | what it does (sub-agent's summary) | own check (quick) | other checks that alarm | first detection needed strengthening? |", "|---|---|---|---|---|---|"]
    tot = hit = 0
    for name in sorted(os.listdir(d)):
        mp = os.path.join(d, name, "meta.json")
        if not os.path.exists(mp):
            continue
        m = json.load(open(mp))
        tot += 1
        own = (m.get("checks_quick") or {}).get(m["property"], {})
        ownv = {1: "VIOLATION", 0: "passes (missed)", 2: "inconclusive"}.get(own.get("exit"), "?")
        if own.get("exit") == 1:
            hit += 1
        others = sorted(p for p in (m.get("detected_by") or []) if p != m["property"])
        out.append("| %s | %s | %s | %s (%ss) | %s | %s |" % (name, m["property"], (m.get("summary") or m.get("needs") or "").replace("|", "\\|")[:260], ownv, own.get("wall", "?"), ", ".join(others) or "-", m.get("strengthened", "no")))
    out.append("")
    out.append("%d of %d seeded changes are reported by the quick tier of the check of the property they were written against." % (hit, tot))
    return "\n".join(out) + "\n"


def main():
    dp = os.path.join(VERIF, "DESIGN.md")
    s = open(dp).read()
    gen = "<!-- BEGIN GENERATED SENSITIVITY -->\n\n### 6.1 Hand-written mutants (tools/mutants.py)\n\n" + mutants_table() + "\n### 6.2 Seeded changes written by independent sub-agents (seeded/, tools/seeded.py)\n\n" + seeded_table() + "\n<!-- END GENERATED SENSITIVITY -->"
    if "<!-- BEGIN GENERATED SENSITIVITY -->" in s:
        s = re.sub(r"<!-- BEGIN GENERATED SENSITIVITY -->.*<!-- END GENERATED SENSITIVITY -->", lambda m: gen, s, flags=re.S)
    else:
        print("markers not found in DESIGN.md", file=sys.stderr)
        sys.exit(1)
    open(dp, "w").write(s)
    print("DESIGN.md updated")


if __name__ == "__main__":
    main()
