#!/usr/bin/env python3
"""Behaviour-preserving changes (the opposite of seeded faults): changes written by
independent sub-agents that were asked to move only within the degrees of freedom a
property leaves open.  Every check must stay silent on them.

  tools/legit.py import <property> <srcdir> <name>   keep a candidate (patch.diff, notes.md) as /verif/legit/<name>/
                                                     after confirming that it applies, builds and passes the
                                                     repository's own tests
  tools/legit.py run [--part K/N] [--only Cxx,Cyy] [name ...]
                                                     run ALL 16 quick checks (or only the listed ones, after a
                                                     check was changed) against each kept change (scratch
                                                     worktree, never /repo) and record the outcome in meta.json
"""
import json, os, shutil, subprocess, sys, time
VERIF = os.path.dirname(os.path.dirname(os.path.abspath(__file__)))
LEGIT = os.path.join(VERIF, "legit")
ENV = dict(os.environ, GOFLAGS="-mod=mod", GOPROXY="off", GOSUMDB="off", GOTOOLCHAIN="local")


def sh(cmd, cwd=None, timeout=3600, env=None):
    try:
        r = subprocess.run(cmd, cwd=cwd, env=env or ENV, shell=isinstance(cmd, str), stdout=subprocess.PIPE, stderr=subprocess.STDOUT, text=True, errors="replace", timeout=timeout)
        return r.returncode, r.stdout
    except subprocess.TimeoutExpired:
        return -9, "timeout"


def worktree(tag):
    wt = "/tmp/legitrun/%s-%d" % (tag, os.getpid())
    os.makedirs("/tmp/legitrun", exist_ok=True)
    subprocess.run(["git", "-C", "/repo", "worktree", "add", "-q", "--detach", wt, "HEAD"], check=True)
    return wt


def drop(wt):
    subprocess.run(["git", "-C", "/repo", "worktree", "remove", "--force", wt])
    shutil.rmtree(wt + ".out", ignore_errors=True)


def main():
    a = sys.argv[1:]
    if not a:
        print(__doc__); return
    if a[0] == "import":
        prop, src, name = a[1], a[2], a[3]
        wt = worktree("imp-" + name)
        try:
            rc, out = sh(["git", "apply", os.path.join(src, "patch.diff")], cwd=wt)
            if rc != 0:
                print("NOT KEPT", name, "patch does not apply:", out[-200:]); sys.exit(1)
            rc, out = sh("go build ./... && go test -vet=off -count=1 ./...", cwd=wt)
            if rc != 0:
                print("NOT KEPT", name, "build or the repository's tests fail"); sys.exit(1)
        finally:
            drop(wt)
        d = os.path.join(LEGIT, name)
        os.makedirs(d, exist_ok=True)
        for fn in os.listdir(src):
            shutil.copy(os.path.join(src, fn), d)
        json.dump(dict(name=name, written_for=prop, origin="independent sub-agent asked for a change after which the property still holds",
                       confirmed="applies to /repo HEAD, builds, the repository's tests pass"), open(os.path.join(d, "meta.json"), "w"), indent=1)
        print("kept", name)
        return
    if a[0] == "run":
        part = None
        if "--part" in a:
            i = a.index("--part"); part = tuple(int(x) for x in a[i + 1].split("/")); del a[i:i + 2]
        only = None
        if "--only" in a:
            i = a.index("--only"); only = a[i + 1].split(","); del a[i:i + 2]
        names = [x for x in a[1:] if not x.startswith("--")] or sorted(n for n in os.listdir(LEGIT) if os.path.isdir(os.path.join(LEGIT, n)))
        for idx, name in enumerate(names):
            if part and idx % part[1] != part[0]:
                continue
            d = os.path.join(LEGIT, name)
            wt = worktree("run-" + name)
            res = {}
            try:
                rc, out = sh(["git", "apply", os.path.join(d, "patch.diff")], cwd=wt)
                if rc != 0:
                    print(name, "patch does not apply"); continue
                env = dict(ENV, VERIF_REPO=wt, VERIF_OUTDIR=wt + ".out")
                for p in (only or ["C%02d" % i for i in range(1, 17)]):
                    t0 = time.time()
                    rc, out = sh([os.path.join(VERIF, "check"), p, "--tier", "quick"], cwd=VERIF, env=env, timeout=3600)
                    msg = ""
                    if rc != 0:
                        body = [l for l in out.splitlines() if "VIOLATION-CANDIDATE" in l or l.startswith("INCONCLUSIVE")]
                        msg = (body[0] if body else out[-300:])[:700]
                    res[p] = dict(exit=rc, wall=round(time.time() - t0, 1), first=msg)
            finally:
                drop(wt)
            mp = os.path.join(d, "meta.json")
            meta = json.load(open(mp))
            meta.setdefault("checks_quick", {}).update(res)
            res = meta["checks_quick"]
            meta["alarms"] = sorted(p for p, v in res.items() if v["exit"] == 1)
            meta["inconclusive"] = sorted(p for p, v in res.items() if v["exit"] not in (0, 1))
            json.dump(meta, open(mp, "w"), indent=1)
            print(name, "alarms:", meta["alarms"], "inconclusive:", meta["inconclusive"], flush=True)
        return
    print(__doc__)


if __name__ == "__main__":
    main()
