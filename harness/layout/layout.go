// Package layout is the harness's independent unparser: ir tree -> token list
// -> source text.  Parenthesisation and token separation rules are written
// from the ECMAScript grammar, not derived from xjs's printer.
package layout

import (
	"strings"

	"verif/harness/ir"
)

// Chooser supplies every random decision (rapid-backed in properties, fixed in
// enumerations and replays).
type Chooser interface {
	// Intn returns a value in [0,n).
	Intn(n int, label string) int
}

// Fixed always answers 0: the minimal layout.
type Fixed struct{}

func (Fixed) Intn(int, string) int { return 0 }

type TokKind int

const (
	Word TokKind = iota // identifier or keyword
	Number
	String
	Template
	Punct
	Term // optional statement terminator (rendered as ";" or by ASI)
	EOF
)

type Role int

const (
	NoRole Role = iota
	CallOpen
	CallClose
	GroupOpen
	GroupClose
	IndexOpen
	IndexClose
	ArrayOpen
	ArrayClose
	BlockOpen
	BlockClose
	ObjOpen
	ObjClose
	ForSemi
	Keyword
	IdentRef   // identifier used as expression
	IdentDecl  // let name, function name, parameter
	IdentProp  // .name
	IdentKey   // object key
	OperatorTk // unary/binary/assign/postfix operator
	Comma
	Colon
	Dot
)

type Ctx int

const (
	CtxBlock Ctx = iota
	CtxFunc
)

type Tok struct {
	Text       string
	Kind       TokKind
	Role       Role
	NoNLBefore bool     // restricted production: no line break before this token
	StmtStart  bool     // first token of a statement
	ListMember bool     // ... that is a member of a statement list (program, block, function body)
	StmtPath   string   // path of the statement this token starts (when StmtStart) or closes (BlockClose)
	ExprStart  bool     // first token of a position parsed as a complete expression
	ExprCore   bool     // ... that hangs directly on a statement
	Ctx        []Ctx    // enclosing constructs, outermost first
	Node       *ir.Node // owning node
	PostfixOp  bool
	EndsExpr   bool // last token of an expression (a following `(` or `[` would continue it)
	// filled by Render
	Off, Line, Col int
	Gap            string // text placed before this token
	Rendered       string // what was written for this token ("" for an ASI terminator)
}

type Options struct {
	Redundant  int  // per-mille probability of a redundant group around a sub-expression
	Random     bool // random gaps; false = minimal gaps, explicit semicolons
	Comments   bool // allow // comments in gaps
	CRLF       bool // allow \r\n
	CR         bool // every line break between tokens is a lone \r (classic Mac OS line ends; a LineTerminator of ECMAScript)
	ASI        bool // allow line-break / omitted terminators
	NoNewlines bool // never put a line break inside a gap (C13 smart-mode inputs control them explicitly)
	SmartASI   bool // line-break-only separators also before statements that begin with `(` or `[` (smart-semicolon inputs)
	// GapOverride, when non-nil and returning ok, decides the gap before next.
	GapOverride func(ch Chooser, prev, next *Tok) (string, bool)
}

type emitter struct {
	ch      Chooser
	opt     Options
	toks    []*Tok
	ctx     []Ctx
	force   map[*ir.Node]bool
	pathStk []string
	inSub   bool
}

func prec(n *ir.Node) int {
	switch n.K {
	case ir.Assign:
		return 2
	case ir.Binary:
		return BinPrec(n.Op)
	case ir.Unary:
		return 9
	case ir.Postfix:
		return 10
	case ir.Call, ir.Member, ir.Index:
		return 12
	}
	return 13
}

// BinPrec is the ECMAScript binding level of a binary operator of the subset.
func BinPrec(op string) int {
	switch op {
	case "||":
		return 3
	case "&&":
		return 4
	case "==", "!=":
		return 5
	case "<", ">", "<=", ">=":
		return 6
	case "+", "-":
		return 7
	case "*", "/", "%":
		return 8
	}
	panic("layout: unknown binary operator " + op)
}

func (e *emitter) emit(t *Tok) *Tok {
	t.Ctx = append([]Ctx(nil), e.ctx...)
	e.toks = append(e.toks, t)
	return t
}

func (e *emitter) punct(s string, r Role, n *ir.Node) *Tok {
	return e.emit(&Tok{Text: s, Kind: Punct, Role: r, Node: n})
}

func (e *emitter) word(s string, r Role, n *ir.Node) *Tok {
	return e.emit(&Tok{Text: s, Kind: Word, Role: r, Node: n})
}

// leftmost returns the leftmost primary of an expression as the unparser will
// print it (ignoring parentheses it may add).
func leftmost(n *ir.Node) *ir.Node {
	for {
		switch n.K {
		case ir.Binary, ir.Assign, ir.Call, ir.Member, ir.Index, ir.Postfix:
			n = n.Kids[0]
		default:
			return n
		}
	}
}

// fullExpr emits an expression in a position that is parsed as a complete
// expression (marks ExprStart on its first token).
// coreExpr: a complete expression that hangs directly on a statement (let
// initialiser, expression statement, return value, condition, for-header part).
func (e *emitter) coreExpr(n *ir.Node, min int) {
	i := len(e.toks)
	e.fullExpr(n, min)
	if i < len(e.toks) {
		e.toks[i].ExprCore = true
	}
}

func (e *emitter) fullExpr(n *ir.Node, min int) {
	i := len(e.toks)
	e.expr(n, min, true)
	e.toks[i].ExprStart = true
}

func (e *emitter) expr(n *ir.Node, min int, redundantOK bool) {
	defer func() { e.toks[len(e.toks)-1].EndsExpr = true }()
	wrap := prec(n) < min || e.force[n]
	if !wrap && redundantOK && e.opt.Redundant > 0 && e.ch.Intn(1000, "redundant") < e.opt.Redundant {
		wrap = true
	}
	if wrap {
		delete(e.force, n)
		e.punct("(", GroupOpen, n)
		i := len(e.toks)
		e.expr(n, 0, true)
		e.toks[i].ExprStart = true
		e.punct(")", GroupClose, n)
		return
	}
	switch n.K {
	case ir.Ident:
		e.word(n.Op, IdentRef, n)
	case ir.Num:
		e.emit(&Tok{Text: n.Op, Kind: Number, Node: n})
	case ir.Str:
		q := n.Quote
		if q == "" {
			q = "\""
		}
		e.emit(&Tok{Text: q + n.Spelling() + q, Kind: String, Node: n})
	case ir.Tpl:
		e.emit(&Tok{Text: "`" + n.Op + "`", Kind: Template, Node: n})
	case ir.Bool:
		e.word(n.Op, Keyword, n)
	case ir.Null:
		e.word("null", Keyword, n)
	case ir.Unary:
		e.punct(n.Op, OperatorTk, n)
		i := len(e.toks)
		e.expr(n.Kids[0], 9, n.Op == "-" || n.Op == "!")
		e.toks[i].ExprStart = true
	case ir.Postfix:
		e.expr(n.Kids[0], 12, false)
		t := e.punct(n.Op, OperatorTk, n)
		t.NoNLBefore = true
		t.PostfixOp = true
	case ir.Binary:
		p := BinPrec(n.Op)
		e.expr(n.Kids[0], p, true)
		e.punct(n.Op, OperatorTk, n)
		e.fullExpr(n.Kids[1], p+1)
	case ir.Assign:
		e.expr(n.Kids[0], 12, false)
		e.punct(n.Op, OperatorTk, n)
		e.fullExpr(n.Kids[1], 2)
	case ir.Call:
		e.expr(n.Kids[0], 12, true)
		e.punct("(", CallOpen, n)
		for i, a := range n.Kids[1:] {
			if i > 0 {
				e.punct(",", Comma, n)
			}
			e.fullExpr(a, 2)
		}
		e.punct(")", CallClose, n)
	case ir.Member:
		obj := n.Kids[0]
		if obj.K == ir.Num && !e.force[obj] {
			// `1.x` is a lexical error; print `(1).x` or `1 .x`
			if e.ch.Intn(2, "numdot") == 0 {
				e.force[obj] = true
			}
		}
		e.expr(obj, 12, true)
		e.punct(".", Dot, n)
		t := e.word(n.Op, IdentProp, n)
		t.ExprStart = true
	case ir.Index:
		e.expr(n.Kids[0], 12, true)
		e.punct("[", IndexOpen, n)
		e.fullExpr(n.Kids[1], 2)
		e.punct("]", IndexClose, n)
	case ir.Array:
		e.punct("[", ArrayOpen, n)
		for i, a := range n.Kids {
			if i > 0 {
				e.punct(",", Comma, n)
			}
			e.fullExpr(a, 2)
		}
		e.punct("]", ArrayClose, n)
	case ir.Object:
		e.punct("{", ObjOpen, n)
		for i := 0; i+1 < len(n.Kids); i += 2 {
			if i > 0 {
				e.punct(",", Comma, n)
			}
			k := n.Kids[i]
			j := len(e.toks)
			switch k.K {
			case ir.Ident:
				e.word(k.Op, IdentKey, k)
			default:
				e.expr(k, 13, false)
			}
			e.toks[j].ExprStart = true
			e.punct(":", Colon, n)
			e.fullExpr(n.Kids[i+1], 2)
		}
		e.punct("}", ObjClose, n)
	case ir.Func:
		e.word("function", Keyword, n)
		if n.Op != "" {
			e.word(n.Op, IdentDecl, n)
		}
		e.params(n)
		e.funcBody(n.Kids[0])
	default:
		panic("layout: not an expression: " + n.K.String())
	}
}

func (e *emitter) params(n *ir.Node) {
	e.punct("(", NoRole, n)
	for i, p := range n.Params {
		if i > 0 {
			e.punct(",", Comma, n)
		}
		e.word(p, IdentDecl, n)
	}
	e.punct(")", NoRole, n)
}

func (e *emitter) funcBody(b *ir.Node) {
	e.punct("{", BlockOpen, b)
	e.ctx = append(e.ctx, CtxFunc)
	e.pathStk = append(e.pathStk, "")
	for i, s := range b.Kids {
		e.stmt(s, i)
	}
	path := e.curPath()
	e.pathStk = e.pathStk[:len(e.pathStk)-1]
	e.ctx = e.ctx[:len(e.ctx)-1]
	t := e.punct("}", BlockClose, b)
	t.StmtPath = path + "}"
}

func (e *emitter) curPath() string {
	return strings.Join(e.pathStk, "/")
}

func (e *emitter) term(n *ir.Node) {
	e.emit(&Tok{Text: ";", Kind: Term, Node: n})
}

func (e *emitter) stmt(n *ir.Node, idx int) {
	start := len(e.toks)
	sub := e.inSub
	e.inSub = false
	defer func() { e.toks[start].ListMember = !sub }()
	e.pathStk[len(e.pathStk)-1] = itoa(idx)
	path := e.curPath()
	switch n.K {
	case ir.Let:
		e.word("let", Keyword, n)
		e.word(n.Op, IdentDecl, n)
		if n.Kids[0] != nil {
			e.punct("=", OperatorTk, n)
			e.coreExpr(n.Kids[0], 2)
		}
		e.term(n)
	case ir.FuncDecl:
		e.word("function", Keyword, n)
		e.word(n.Op, IdentDecl, n)
		e.params(n)
		e.funcBody(n.Kids[0])
	case ir.Return:
		e.word("return", Keyword, n)
		if n.Kids[0] != nil {
			i := len(e.toks)
			e.coreExpr(n.Kids[0], 2)
			e.toks[i].NoNLBefore = true
		}
		e.term(n)
	case ir.If:
		e.word("if", Keyword, n)
		e.punct("(", NoRole, n)
		e.coreExpr(n.Kids[0], 2)
		e.punct(")", NoRole, n)
		e.sub(n.Kids[1], "t")
		if n.Kids[2] != nil {
			e.word("else", Keyword, n)
			e.sub(n.Kids[2], "e")
		}
	case ir.While:
		e.word("while", Keyword, n)
		e.punct("(", NoRole, n)
		e.coreExpr(n.Kids[0], 2)
		e.punct(")", NoRole, n)
		e.sub(n.Kids[1], "b")
	case ir.For:
		e.word("for", Keyword, n)
		e.punct("(", NoRole, n)
		if in := n.Kids[0]; in != nil {
			if in.K == ir.Let {
				e.word("let", Keyword, in)
				e.word(in.Op, IdentDecl, in)
				if in.Kids[0] != nil {
					e.punct("=", OperatorTk, in)
					e.coreExpr(in.Kids[0], 2)
				}
			} else {
				e.coreExpr(in, 2)
			}
		}
		e.punct(";", ForSemi, n)
		if n.Kids[1] != nil {
			e.coreExpr(n.Kids[1], 2)
		}
		e.punct(";", ForSemi, n)
		if n.Kids[2] != nil {
			e.coreExpr(n.Kids[2], 2)
		}
		e.punct(")", NoRole, n)
		e.sub(n.Kids[3], "b")
	case ir.Block:
		e.punct("{", BlockOpen, n)
		e.ctx = append(e.ctx, CtxBlock)
		e.pathStk = append(e.pathStk, "")
		for i, s := range n.Kids {
			e.stmt(s, i)
		}
		p := e.curPath()
		e.pathStk = e.pathStk[:len(e.pathStk)-1]
		e.ctx = e.ctx[:len(e.ctx)-1]
		t := e.punct("}", BlockClose, n)
		t.StmtPath = p + "}"
	case ir.ExprStmt:
		x := n.Kids[0]
		lm := leftmost(x)
		if lm.K == ir.Func || lm.K == ir.Object {
			// an expression statement may not begin with `function` or `{`
			if lm == x || e.ch.Intn(2, "wrapwhole") == 0 {
				e.force[x] = true
			} else {
				e.force[lm] = true
			}
		}
		e.coreExpr(x, 2)
		e.term(n)
	default:
		panic("layout: not a statement: " + n.K.String())
	}
	e.toks[start].StmtStart = true
	e.toks[start].StmtPath = path
}

// sub emits a nested (body) statement; its path extends the parent's.
func (e *emitter) sub(n *ir.Node, tag string) {
	save := e.pathStk[len(e.pathStk)-1]
	e.pathStk = append(e.pathStk, "")
	e.pathStk[len(e.pathStk)-2] = save + tag
	e.inSub = true
	e.stmt(n, 0)
	e.pathStk = e.pathStk[:len(e.pathStk)-1]
	e.pathStk[len(e.pathStk)-1] = save
}

func itoa(i int) string {
	if i == 0 {
		return "0"
	}
	var b []byte
	for i > 0 {
		b = append([]byte{byte('0' + i%10)}, b...)
		i /= 10
	}
	return string(b)
}

// Tokens converts a program (or a single statement/expression wrapped by the
// caller) into the token list, ending with an EOF token.
func Tokens(ch Chooser, prog *ir.Node, opt Options) []*Tok {
	e := &emitter{ch: ch, opt: opt, force: map[*ir.Node]bool{}, pathStk: []string{""}}
	for i, s := range prog.Kids {
		e.stmt(s, i)
	}
	t := e.emit(&Tok{Kind: EOF, Role: NoRole})
	t.StmtPath = "$"
	return e.toks
}

func isWordish(k TokKind) bool { return k == Word || k == Number }

// needSep reports whether two adjacent rendered tokens must be separated by
// white space to keep their boundaries.
func needSep(a, b string, ak, bk TokKind) bool {
	if isWordish(ak) && isWordish(bk) {
		return true
	}
	if ak == Number && b == "." {
		return true
	}
	if a == "" || b == "" {
		return false
	}
	la, fb := a[len(a)-1], b[0]
	if ak == Punct && bk == Punct {
		if (la == '+' && fb == '+') || (la == '-' && fb == '-') {
			return true
		}
		if a == "<" && b == "!" { // `<!--`
			return true
		}
		if la == '-' && fb == '>' { // `-->`
			return true
		}
		if la == '/' && (fb == '/' || fb == '*') {
			return true
		}
	}
	return false
}

// asiHazard: a statement that begins with this token cannot be separated from
// its predecessor by a line break alone.
func asiHazard(t *Tok) bool {
	if t.Kind == Template {
		return true
	}
	if t.Kind == Punct {
		switch t.Text {
		case "(", "[", "-", "+", "/", "*", "%", ".", ",", "<", ">", "<=", ">=", "==", "!=", "&&", "||", "=", "+=", "-=":
			return true
		}
	}
	return false
}

// afterPostfixUpdate: the value of a postfix `++`/`--` cannot be called, indexed
// or tagged, so after a line break a `(`, `[` or backtick is an offending token
// and ASI applies: `x = a++ <LF> (b)` is two statements.
func afterPostfixUpdate(prev, next *Tok) bool {
	if prev != nil && prev.Kind == Word && prev.Role == Keyword && prev.Text == "return" {
		// a bare `return` followed by a line break is complete (restricted
		// production): whatever starts the next line - also ( [ - + or a
		// backtick - starts a new statement
		return true
	}
	if prev == nil || !prev.PostfixOp {
		return false
	}
	return next.Kind == Template || (next.Kind == Punct && (next.Text == "(" || next.Text == "["))
}

var commentPool = []string{"c", " note", " TODO: x", "", " a b c ", " let x = 1;", " }", " if (", " 'q' \"d\" `b`", " // nested", " /* not block */", "\t tab", " ünï", "\t", " ends in a tab\t", " \t \t"}

func (r *renderer) randGap(nlOK bool, must bool) string {
	ch, opt := r.ch, r.opt
	if opt.NoNewlines {
		nlOK = false
	}
	for {
		var g string
		switch k := ch.Intn(20, "gap"); {
		case k < 7:
			g = ""
		case k < 12:
			g = " "
		case k < 13:
			g = "\t"
		case k < 14:
			g = "  "
		case k < 16:
			g = "\n"
		case k < 17:
			if opt.CRLF {
				g = "\r\n"
			} else {
				g = "\n"
			}
		case k < 18:
			nl := 2
			if ch.Intn(4, "blankrun") == 0 {
				nl = 4 + ch.Intn(3, "blankrunlen") // three to five blank lines in a row
			}
			g = strings.Repeat("\n", nl) + strings.Repeat(" ", ch.Intn(4, "ind"))
		default:
			if opt.Comments {
				g = " //" + commentPool[ch.Intn(len(commentPool), "cmt")] + "\n" + strings.Repeat(" ", ch.Intn(3, "ind"))
				if ch.Intn(4, "cmt2") == 0 {
					g += "//" + commentPool[ch.Intn(len(commentPool), "cmt")] + "\n"
				}
				// blank lines in front of the comment (a file header after empty lines,
				// a comment block set off from the code above it) or behind it
				switch ch.Intn(6, "cmtblank") {
				case 0:
					g = "\n\n" + strings.TrimLeft(g, " ")
				case 1:
					g = "\n" + strings.TrimLeft(g, " ")
				case 2:
					g += "\n"
				}
			} else {
				g = " "
			}
		}
		if !nlOK && strings.ContainsAny(g, "\n") {
			g = " "
		}
		if must && g == "" {
			g = " "
		}
		return g
	}
}

type renderer struct {
	ch  Chooser
	opt Options
}

// Render writes the token list as text, filling in positions.  The returned
// token list is the same slice (ASI-rendered terminators have Rendered == "").
func Render(ch Chooser, toks []*Tok, opt Options) string {
	r := &renderer{ch: ch, opt: opt}
	var b strings.Builder
	line, col := 0, 0
	write := func(s string) {
		b.WriteString(s)
		for i := 0; i < len(s); i++ {
			if s[i] == '\n' {
				line++
				col = 0
			} else {
				col++
			}
		}
	}
	allCRLF := opt.CRLF && opt.Random && ch.Intn(2, "allcrlf") == 1
	var prev *Tok      // previous rendered (non-empty) token
	pendingNL := false // an ASI terminator was chosen: next gap must contain a line break (unless } or EOF follows)
	for i, t := range toks {
		if t.Kind == Term {
			next := toks[i+1]
			t.Rendered = ";"
			if opt.ASI && opt.Random {
				closes := next.Kind == EOF || (next.Kind == Punct && next.Role == BlockClose)
				elseNext := next.Kind == Word && next.Text == "else" && next.Role == Keyword
				switch {
				case closes:
					if ch.Intn(2, "asi") == 1 {
						t.Rendered = ""
					}
				case (!asiHazard(next) || afterPostfixUpdate(prev, next) || (opt.SmartASI && (next.Text == "(" || next.Text == "["))) && !opt.NoNewlines:
					if ch.Intn(2, "asi") == 1 {
						t.Rendered = ""
						pendingNL = true
					}
				}
				_ = elseNext
			}
			if t.Rendered == "" {
				t.Gap = ""
				t.Off, t.Line, t.Col = b.Len(), line, col
				continue
			}
		} else {
			t.Rendered = t.Text
		}
		// gap before t
		gap := ""
		decided := false
		if opt.GapOverride != nil {
			if g, ok := opt.GapOverride(ch, prev, t); ok {
				gap, decided = g, true
			}
		}
		if !decided {
			must := prev != nil && t.Kind != EOF && needSep(prev.Rendered, t.Rendered, prev.Kind, t.Kind)
			nlOK := !t.NoNLBefore
			if t.Kind == Term && i+1 < len(toks) && toks[i+1].Kind == Word && toks[i+1].Role == Keyword && toks[i+1].Text == "else" {
				// A line break before `;` is legal ECMAScript (the `;` continues the
				// statement, no ASI), but goja (the reference parser) applies ASI at
				// the break and then sees an empty statement.  In statement lists the
				// shape extraction drops those; `if (a) b\n; else c` it cannot parse.
				nlOK = false
			}
			if opt.Random {
				if prev == nil && t.Kind != EOF {
					gap = r.randGap(true, false)
				} else {
					gap = r.randGap(nlOK, must)
				}
			} else if must {
				gap = " "
			}
		}
		if pendingNL {
			if !strings.Contains(gap, "\n") {
				if opt.CRLF && ch.Intn(4, "crlf") == 0 {
					gap += "\r\n"
				} else {
					gap += "\n"
				}
			}
			pendingNL = false
		}
		if allCRLF && strings.Contains(gap, "\n") {
			// a file with Windows line ends: every line break of every gap, also the
			// one that ends a comment
			gap = strings.ReplaceAll(strings.ReplaceAll(gap, "\r\n", "\n"), "\n", "\r\n")
		}
		if opt.CR && strings.Contains(gap, "\n") {
			gap = strings.ReplaceAll(strings.ReplaceAll(gap, "\r\n", "\n"), "\n", "\r")
		}
		t.Gap = gap
		write(gap)
		t.Off, t.Line, t.Col = b.Len(), line, col
		write(t.Rendered)
		if t.Kind != EOF {
			prev = t
		}
	}
	return b.String()
}

// Source is the convenience entry: tokens + render.
func Source(ch Chooser, prog *ir.Node, opt Options) (string, []*Tok) {
	toks := Tokens(ch, prog, opt)
	src := Render(ch, toks, opt)
	return src, toks
}

// Minimal renders with minimal gaps and explicit semicolons.
func Minimal(prog *ir.Node) string {
	s, _ := Source(Fixed{}, prog, Options{})
	return s
}
