// Package jsrun executes JavaScript text on goja and records what it prints
// and how it completes.
package jsrun

import (
	"errors"
	"fmt"
	"math"
	"sort"
	"strings"
	"time"

	"github.com/dop251/goja"
)

type Result struct {
	Prints     []string
	Completion string // "normal", "SyntaxError", an exception's constructor name, "interrupted", "engine-limitation"
	Detail     string
}

func (r Result) Equal(o Result) bool {
	if r.Completion != o.Completion || len(r.Prints) != len(o.Prints) {
		return false
	}
	for i := range r.Prints {
		if r.Prints[i] != o.Prints[i] {
			return false
		}
	}
	return true
}

func (r Result) String() string {
	return fmt.Sprintf("completion=%s prints=%q", r.Completion, r.Prints)
}

func render(vm *goja.Runtime, v goja.Value, depth int) string {
	if v == nil || goja.IsUndefined(v) {
		return "undefined"
	}
	if goja.IsNull(v) {
		return "null"
	}
	switch x := v.Export().(type) {
	case bool:
		return fmt.Sprint(x)
	case int64:
		return fmt.Sprint(x)
	case float64:
		if x == 0 && math.Signbit(x) {
			return "-0"
		}
		return v.String()
	case string:
		// UTF-16 code units, so that lone surrogates stay visible
		var b strings.Builder
		b.WriteByte('"')
		if s, ok := v.(goja.String); ok {
			for i := 0; i < s.Length(); i++ {
				u := s.CharAt(i)
				if u >= 0x20 && u < 0x7f && u != '"' && u != '\\' {
					b.WriteByte(byte(u))
				} else {
					fmt.Fprintf(&b, "\\u%04x", u)
				}
			}
		} else {
			b.WriteString(x)
		}
		b.WriteByte('"')
		return b.String()
	}
	obj, ok := v.(*goja.Object)
	if !ok {
		return v.String()
	}
	if _, isFn := goja.AssertFunction(v); isFn {
		return "function"
	}
	if depth <= 0 {
		return "…"
	}
	if obj.ClassName() == "Array" {
		n := int(obj.Get("length").ToInteger())
		parts := []string{}
		for i := 0; i < n && i < 20; i++ {
			parts = append(parts, render(vm, obj.Get(fmt.Sprint(i)), depth-1))
		}
		return "[" + strings.Join(parts, ",") + "]"
	}
	keys := obj.Keys()
	sort.Strings(keys)
	parts := []string{}
	for _, k := range keys {
		parts = append(parts, k+":"+render(vm, obj.Get(k), depth-1))
	}
	return obj.ClassName() + "{" + strings.Join(parts, ",") + "}"
}

// prelude runs on both sides before the program and never passes through xjs.
// goja's native Array.prototype.join has no cycle detection: an array that
// contains itself, converted to a string, recurses until the Go stack is
// exhausted (a fatal error that cannot be recovered).  The prelude installs a
// join that treats a cyclic reference as the empty string, as V8 does.
const prelude = `(function () {
  var active = [];
  Object.defineProperty(Array.prototype, "join", {writable: true, configurable: true, enumerable: false, value: function (sep) {
    if (active.indexOf(this) >= 0) return "";
    active.push(this);
    try {
      var s = sep === undefined ? "," : String(sep), out = "", n = this.length >>> 0;
      for (var i = 0; i < n; i++) {
        if (i) out += s;
        var v = this[i];
        if (v !== undefined && v !== null) out += String(v);
      }
      return out;
    } finally { active.pop(); }
  }});
})();`

var preludeProg = goja.MustCompile("prelude", prelude, false)

// Run executes code on a fresh runtime.
func Run(code string) (res Result) {
	defer func() {
		if r := recover(); r != nil {
			res.Completion = "engine-limitation"
			res.Detail = fmt.Sprint(r)
		}
	}()
	vm := goja.New()
	var prints []string
	vm.Set("print", func(call goja.FunctionCall) goja.Value {
		parts := make([]string, len(call.Arguments))
		for i, a := range call.Arguments {
			parts[i] = render(vm, a, 3)
		}
		if len(prints) < 2000 {
			prints = append(prints, strings.Join(parts, " "))
		}
		return goja.Undefined()
	})
	vm.SetMaxCallStackSize(2000)
	if _, err := vm.RunProgram(preludeProg); err != nil {
		panic("jsrun prelude: " + err.Error())
	}
	prog, err := goja.Compile("", code, false)
	if err != nil {
		return Result{Completion: "SyntaxError", Detail: err.Error()}
	}
	timer := time.AfterFunc(3*time.Second, func() { vm.Interrupt("timeout") })
	defer timer.Stop()
	_, err = vm.RunProgram(prog)
	res.Prints = prints
	if err == nil {
		res.Completion = "normal"
		return res
	}
	var ie *goja.InterruptedError
	if errors.As(err, &ie) {
		res.Completion = "interrupted"
		return res
	}
	var ex *goja.Exception
	if errors.As(err, &ex) {
		res.Completion = "exception"
		if o, ok := ex.Value().(*goja.Object); ok {
			if c := o.Get("constructor"); c != nil {
				if co, ok := c.(*goja.Object); ok {
					if n := co.Get("name"); n != nil {
						res.Completion = n.String()
					}
				}
			}
		} else {
			res.Completion = "thrown:" + render(vm, ex.Value(), 1)
		}
		res.Detail = ex.Error()
		return res
	}
	var se *goja.CompilerSyntaxError
	if errors.As(err, &se) {
		res.Completion = "SyntaxError"
		res.Detail = err.Error()
		return res
	}
	res.Completion = "error:" + fmt.Sprintf("%T", err)
	res.Detail = err.Error()
	return res
}
