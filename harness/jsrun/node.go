package jsrun

// Second engine: V8 through one long-lived node process per test process.
//
// It exists because goja is both the engine and (through its parser) the judge
// of "valid JavaScript" everywhere else in the harness; behaviours that goja
// does not implement are invisible to a goja-only comparison.  The one that
// matters for a transpiler that removes white space is Annex B.1.3 of
// ECMAScript ("HTML-like comments"): in a script `<!--` starts a comment, so
// `a < !--b` and `a<!--b` are different programs for every browser and for
// node, but the same program for goja.
//
// The engine is optional: if no node binary is on PATH, or the child cannot be
// started or dies, NodeAvailable() is false and callers skip the comparison
// (and say so in their evidence).  Nothing here is ever a verdict by itself:
// callers compare what node says about the source with what node says about
// the output, and only when node and goja agree about the source.

import (
	"bufio"
	"encoding/json"
	"io"
	"os/exec"
	"sync"
	"time"
)

const nodeScript = `
const vm = require('vm');
const rl = require('readline').createInterface({input: process.stdin, terminal: false, crlfDelay: Infinity});
function rstr(s) {
  let b = '"';
  for (let i = 0; i < s.length; i++) {
    const u = s.charCodeAt(i);
    if (u >= 0x20 && u < 0x7f && u !== 0x22 && u !== 0x5c) b += String.fromCharCode(u);
    else b += '\\u' + u.toString(16).padStart(4, '0');
  }
  return b + '"';
}
function render(v, depth) {
  if (v === undefined) return 'undefined';
  if (v === null) return 'null';
  switch (typeof v) {
    case 'boolean': return String(v);
    case 'number': return Object.is(v, -0) ? '-0' : String(v);
    case 'string': return rstr(v);
    case 'function': return 'function';
    case 'object': break;
    default: return String(v);
  }
  if (depth <= 0) return '…';
  if (Array.isArray(v)) {
    const n = v.length, parts = [];
    for (let i = 0; i < n && i < 20; i++) parts.push(render(v[i], depth - 1));
    return '[' + parts.join(',') + ']';
  }
  const keys = Object.keys(v).sort((a, b) => (a < b ? -1 : a > b ? 1 : 0));
  const parts = keys.map(k => k + ':' + render(v[k], depth - 1));
  return Object.prototype.toString.call(v).slice(8, -1) + '{' + parts.join(',') + '}';
}
rl.on('line', line => {
  let out = {prints: [], completion: 'normal', detail: ''};
  try {
    const req = JSON.parse(line);
    const prints = out.prints;
    const sandbox = {print: (...args) => { if (prints.length < 2000) prints.push(args.map(a => render(a, 3)).join(' ')); }};
    const ctx = vm.createContext(sandbox);
    let script = null;
    try { script = new vm.Script(req.code, {filename: 'case.js'}); }
    catch (e) { out.completion = 'SyntaxError'; out.detail = String(e && e.message); }
    if (script) {
      try { script.runInContext(ctx, {timeout: 3000}); }
      catch (e) {
        if (e && e.code === 'ERR_SCRIPT_EXECUTION_TIMEOUT') out.completion = 'interrupted';
        else if (e !== null && (typeof e === 'object' || typeof e === 'function')) {
          let n = 'exception';
          try { if (e.constructor && typeof e.constructor.name === 'string') n = e.constructor.name; } catch (_) {}
          out.completion = n;
          try { out.detail = String(e.message); } catch (_) {}
        } else out.completion = 'thrown:' + render(e, 1);
      }
    }
  } catch (e) { out = {prints: [], completion: 'engine-limitation', detail: String(e)}; }
  process.stdout.write(JSON.stringify(out) + '\n');
});
`

type nodeProc struct {
	cmd *exec.Cmd
	in  io.WriteCloser
	out *bufio.Reader
}

var (
	nodeMu      sync.Mutex
	nodeCur     *nodeProc
	nodeDead    bool // could not be started, or died too often
	nodeStarts  int
	nodeVersion string
)

func nodeStart() *nodeProc {
	var bin string
	for _, b := range []string{"node", "nodejs"} {
		if p, err := exec.LookPath(b); err == nil {
			bin = p
			break
		}
	}
	if bin == "" {
		return nil
	}
	if nodeVersion == "" {
		if v, err := exec.Command(bin, "--version").Output(); err == nil {
			nodeVersion = string(v)
		}
	}
	cmd := exec.Command(bin, "--stack-size=900", "-e", nodeScript)
	in, err := cmd.StdinPipe()
	if err != nil {
		return nil
	}
	out, err := cmd.StdoutPipe()
	if err != nil {
		return nil
	}
	if err := cmd.Start(); err != nil {
		return nil
	}
	return &nodeProc{cmd: cmd, in: in, out: bufio.NewReaderSize(out, 1<<20)}
}

func (p *nodeProc) kill() {
	p.in.Close()
	p.cmd.Process.Kill()
	go p.cmd.Wait()
}

// NodeAvailable reports whether the second engine can be used (starts it on
// first use).
func NodeAvailable() bool {
	nodeMu.Lock()
	defer nodeMu.Unlock()
	return nodeGet() != nil
}

// NodeVersion is the version string of the node binary in use ("" if none).
func NodeVersion() string { return nodeVersion }

func nodeGet() *nodeProc {
	if nodeCur != nil {
		return nodeCur
	}
	if nodeDead || nodeStarts >= 20 {
		nodeDead = true
		return nil
	}
	nodeStarts++
	nodeCur = nodeStart()
	if nodeCur == nil {
		nodeDead = true
	}
	return nodeCur
}

// NodeRun executes code on V8.  ok is false when the engine is unavailable or
// gave no answer (child died, no reply within 20 s); such a run says nothing.
func NodeRun(code string) (res Result, ok bool) {
	nodeMu.Lock()
	defer nodeMu.Unlock()
	p := nodeGet()
	if p == nil {
		return Result{}, false
	}
	req, _ := json.Marshal(map[string]string{"code": code})
	type reply struct {
		line []byte
		err  error
	}
	ch := make(chan reply, 1)
	go func() {
		if _, err := p.in.Write(append(req, '\n')); err != nil {
			ch <- reply{nil, err}
			return
		}
		line, err := p.out.ReadBytes('\n')
		ch <- reply{line, err}
	}()
	select {
	case r := <-ch:
		if r.err != nil {
			p.kill()
			nodeCur = nil
			return Result{}, false
		}
		var out struct {
			Prints     []string `json:"prints"`
			Completion string   `json:"completion"`
			Detail     string   `json:"detail"`
		}
		if err := json.Unmarshal(r.line, &out); err != nil {
			p.kill()
			nodeCur = nil
			return Result{}, false
		}
		return Result{Prints: out.Prints, Completion: out.Completion, Detail: out.Detail}, true
	case <-time.After(20 * time.Second):
		p.kill()
		nodeCur = nil
		return Result{}, false
	}
}
