// Package evid is the only place that counts what a run covered.
package evid

import (
	"encoding/json"
	"os"
	"sort"
	"sync"

	"verif/harness/ir"
)

type Recorder struct {
	mu          sync.Mutex
	Property    string
	evaluations int64
	nontrivial  map[uint64]struct{}
	classes     map[string]int64
	known       map[string]int64
	discards    map[string]int64
	samples     []Sample
	maxSamples  int
	seen        int64
	notes       []string
	exhaustive  map[string]bool
}

type Sample struct {
	Size int         `json:"size"`
	Case interface{} `json:"case"`
}

func New(property string) *Recorder {
	return &Recorder{Property: property, nontrivial: map[uint64]struct{}{}, classes: map[string]int64{}, known: map[string]int64{}, discards: map[string]int64{}, maxSamples: 6, exhaustive: map[string]bool{}}
}

// Eval counts one evaluation of the property's oracle.
func (r *Recorder) Eval() { r.mu.Lock(); r.evaluations++; r.mu.Unlock() }

func (r *Recorder) EvalN(n int) { r.mu.Lock(); r.evaluations += int64(n); r.mu.Unlock() }

// NonTrivial records a case that satisfies the property's non-triviality rule;
// key is its canonical form (distinctness is by 64-bit hash of key).
func (r *Recorder) NonTrivial(key string) {
	h := ir.Hash(key)
	r.mu.Lock()
	r.nontrivial[h] = struct{}{}
	r.mu.Unlock()
}

func (r *Recorder) Class(name string) { r.mu.Lock(); r.classes[name]++; r.mu.Unlock() }

func (r *Recorder) ClassN(name string, n int) {
	r.mu.Lock()
	r.classes[name] += int64(n)
	r.mu.Unlock()
}

func (r *Recorder) Known(id string) { r.mu.Lock(); r.known[id]++; r.mu.Unlock() }

func (r *Recorder) Discard(reason string) { r.mu.Lock(); r.discards[reason]++; r.mu.Unlock() }

func (r *Recorder) Note(s string) { r.mu.Lock(); r.notes = append(r.notes, s); r.mu.Unlock() }

func (r *Recorder) Exhaustive(space string) { r.mu.Lock(); r.exhaustive[space] = true; r.mu.Unlock() }

// Sample offers a case for the sample list: the first two, the largest, and a
// deterministic thinning of the rest are kept.
func (r *Recorder) Sample(size int, c interface{}) {
	r.mu.Lock()
	defer r.mu.Unlock()
	r.seen++
	s := Sample{Size: size, Case: c}
	if len(r.samples) < 2 {
		r.samples = append(r.samples, s)
		return
	}
	if len(r.samples) < r.maxSamples {
		if r.seen%97 == 0 || size > r.largest() {
			r.samples = append(r.samples, s)
		}
		return
	}
	// replace: keep the largest in slot 2, rotate others rarely
	if size > r.samples[2].Size {
		r.samples[2] = s
	} else if r.seen%9973 == 0 {
		r.samples[3+int(r.seen/9973)%(r.maxSamples-3)] = s
	}
}

func (r *Recorder) largest() int {
	m := 0
	for _, s := range r.samples {
		if s.Size > m {
			m = s.Size
		}
	}
	return m
}

// Shard is what one process writes; the driver merges shards.
type Shard struct {
	Property    string           `json:"property"`
	Evaluations int64            `json:"evaluations"`
	NonTrivial  []uint64         `json:"nontrivial_hashes"`
	Classes     map[string]int64 `json:"classes"`
	Known       map[string]int64 `json:"known_findings_hit"`
	Discards    map[string]int64 `json:"discards"`
	Samples     []Sample         `json:"samples"`
	Notes       []string         `json:"notes,omitempty"`
	Exhaustive  []string         `json:"exhaustive_spaces,omitempty"`
}

func (r *Recorder) Evaluations() int64 { r.mu.Lock(); defer r.mu.Unlock(); return r.evaluations }

func (r *Recorder) ClassCount(name string) int64 {
	r.mu.Lock()
	defer r.mu.Unlock()
	return r.classes[name]
}

func (r *Recorder) Write(path string) error {
	r.mu.Lock()
	defer r.mu.Unlock()
	s := Shard{Property: r.Property, Evaluations: r.evaluations, Classes: r.classes, Known: r.known, Discards: r.discards, Samples: r.samples, Notes: r.notes}
	for h := range r.nontrivial {
		s.NonTrivial = append(s.NonTrivial, h)
	}
	sort.Slice(s.NonTrivial, func(i, j int) bool { return s.NonTrivial[i] < s.NonTrivial[j] })
	for k := range r.exhaustive {
		s.Exhaustive = append(s.Exhaustive, k)
	}
	sort.Strings(s.Exhaustive)
	b, err := json.Marshal(s)
	if err != nil {
		return err
	}
	if path == "" {
		return nil
	}
	return os.WriteFile(path, b, 0o644)
}
