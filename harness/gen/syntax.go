// Package gen holds the generators: random syntax trees over the subset
// (genSyntax), executable programs (genExec), string/number literal
// generators and exhaustive enumerators.
package gen

import (
	"fmt"
	"strconv"
	"strings"

	"pgregory.net/rapid"

	"verif/harness/ir"
)

// R adapts *rapid.T to layout.Chooser and offers small helpers.  Every random
// decision of a property goes through it.
type R struct{ T *rapid.T }

func (r R) Intn(n int, label string) int {
	if n <= 1 {
		return 0
	}
	return rapid.IntRange(0, n-1).Draw(r.T, label)
}

func (r R) Bool(label string) bool { return r.Intn(2, label) == 1 }

// Pick chooses an index according to integer weights.
func (r R) Pick(label string, weights ...int) int {
	tot := 0
	for _, w := range weights {
		tot += w
	}
	x := r.Intn(tot, label)
	for i, w := range weights {
		if x < w {
			return i
		}
		x -= w
	}
	return len(weights) - 1
}

var Idents = []string{"a", "b", "c", "d", "x", "y", "foo", "bar", "x1", "$v", "_u", "obj", "arr", "fn", "lettuce", "iffy", "format", "returned", "nullish", "trueish", "functional", "elsewhere", "whiles", "A", "Z9", "$", "_"}

var BinOps = []string{"||", "&&", "==", "!=", "<", ">", "<=", ">=", "+", "-", "*", "/", "%"}
var AssignOps = []string{"=", "+=", "-="}
var UnaryOps = []string{"-", "!", "++", "--"}
var PostfixOps = []string{"++", "--"}

// Ident draws an identifier: mostly from the small pool (so that names repeat
// and shadow), sometimes a numbered one (so that programs with many distinct
// names exist, e.g. for the source map's name table).
func (r R) Ident() string {
	if r.Intn(6, "numbered-ident") == 0 {
		return "n" + strconv.Itoa(r.Intn(300, "identno"))
	}
	return Idents[r.Intn(len(Idents), "ident")]
}

// NumText draws a numeric literal spelling of a documented shape.
func (r R) NumText() string {
	digits := func(n int, set string, first string) string {
		var b strings.Builder
		for i := 0; i < n; i++ {
			s := set
			if i == 0 && first != "" {
				s = first
			}
			b.WriteByte(s[r.Intn(len(s), "digit")])
		}
		return b.String()
	}
	dec := func() string {
		if r.Intn(5, "zero") == 0 {
			return "0"
		}
		return digits(1+r.Intn(6, "nd"), "0123456789", "123456789")
	}
	switch r.Pick("numshape", 10, 4, 3, 2, 2, 2) {
	case 0:
		if r.Intn(20, "legacyoctal") == 0 {
			// legacy octal integer (sloppy-mode scripts): a leading zero and octal digits
			return "0" + digits(1+r.Intn(4, "nlo"), "01234567", "")
		}
		return dec()
	case 1:
		return dec() + "." + digits(1+r.Intn(4, "nf"), "0123456789", "")
	case 2:
		m := dec()
		if r.Bool("frac") {
			m += "." + digits(1+r.Intn(3, "nf"), "0123456789", "")
		}
		e := "e"
		if r.Bool("E") {
			e = "E"
		}
		sign := []string{"", "+", "-"}[r.Intn(3, "esign")]
		return m + e + sign + digits(1+r.Intn(2, "ne"), "0123456789", "")
	case 3:
		return "0" + string("xX"[r.Intn(2, "x")]) + digits(1+r.Intn(8, "nh"), "0123456789abcdefABCDEF", "")
	case 4:
		return "0" + string("bB"[r.Intn(2, "b")]) + digits(1+r.Intn(12, "nb"), "01", "")
	default:
		return "0" + string("oO"[r.Intn(2, "o")]) + digits(1+r.Intn(8, "no"), "01234567", "")
	}
}

var simpleWords = []string{"", "a", "hi", "hello world", "x1", "A_b", "k", "name", "0", "some text"}

// SimpleStr draws a string literal whose content needs no escaping.
func (r R) SimpleStr() *ir.Node {
	w := simpleWords[r.Intn(len(simpleWords), "word")]
	return StrOf(w, []string{"\"", "'"}[r.Intn(2, "quote")])
}

// StrOf builds a string node from plain text (one raw piece per byte).
func StrOf(text, quote string) *ir.Node {
	n := &ir.Node{K: ir.Str, Quote: quote, Pieces: []ir.Piece{}}
	for _, c := range text {
		n.Pieces = append(n.Pieces, ir.Piece{Src: string(c), Units: utf16Of(c)})
	}
	return n
}

func utf16Of(c rune) []uint16 {
	if c < 0x10000 {
		return []uint16{uint16(c)}
	}
	c -= 0x10000
	return []uint16{uint16(0xD800 + (c >> 10)), uint16(0xDC00 + (c & 0x3FF))}
}

// Syn configures genSyntax.
type Syn struct {
	R         R
	MaxDepth  int  // expression depth
	StmtDepth int  // statement nesting depth
	RichStr   bool // strings with escapes etc. (uses Str generator from literals.go)
	Tpl       bool // backtick strings
	MultiTpl  bool // backtick strings with line breaks
	NoScale   bool // never scale a program up
	Scaled    bool // set by Program when it scaled the program up
	// Dangling: keep `if (a) if (b) c; else d` shaped trees (the then-branch is
	// brace-less and ends in an if without else, and the outer if has an else).
	// No source text has this tree; only a programmatic tree can.
	Dangling bool
}

func (g *Syn) leaf() *ir.Node {
	r := g.R
	switch r.Pick("leaf", 50, 20, 10, 4, 3, 4) {
	case 0:
		return ir.N(ir.Ident, r.Ident())
	case 1:
		return ir.N(ir.Num, r.NumText())
	case 2:
		if g.RichStr && r.Intn(3, "rich") == 0 {
			return r.RichStr(4)
		}
		return r.SimpleStr()
	case 3:
		return ir.N(ir.Bool, []string{"true", "false"}[r.Intn(2, "bool")])
	case 4:
		return ir.N(ir.Null, "")
	default:
		if g.Tpl {
			if g.MultiTpl && r.Intn(5, "tplcluster") == 0 {
				// several backtick strings in one expression (so that they meet on
				// one output line), the last one spanning lines with white space in
				// front of its line breaks
				var kids []*ir.Node
				for i, n := 0, 2+r.Intn(3, "nclust"); i < n; i++ {
					kids = append(kids, r.TplNode(r.Intn(3, "clmulti") == 0))
				}
				tail := []string{"c   \nd", "x \t\n\n  y  \nz", "  \n", "\t\n\t"}[r.Intn(4, "cltail")]
				kids = append(kids, ir.N(ir.Tpl, tail))
				switch r.Intn(3, "clform") {
				case 0:
					return ir.N(ir.Call, "", append([]*ir.Node{ir.N(ir.Ident, r.Ident())}, kids...)...)
				case 1:
					return ir.N(ir.Array, "", kids...)
				}
				e := kids[0]
				for _, k := range kids[1:] {
					e = ir.N(ir.Binary, "+", e, k)
				}
				return e
			}
			return r.TplNode(g.MultiTpl)
		}
		return ir.N(ir.Ident, r.Ident())
	}
}

// Target draws an assignment / update target.
func (g *Syn) Target(d int) *ir.Node {
	r := g.R
	if d <= 0 {
		return ir.N(ir.Ident, r.Ident())
	}
	switch r.Pick("target", 6, 3, 2) {
	case 0:
		return ir.N(ir.Ident, r.Ident())
	case 1:
		return ir.N(ir.Member, r.Ident(), g.postfixable(d-1))
	default:
		return ir.N(ir.Index, "", g.postfixable(d-1), g.Expr(d-1))
	}
}

// postfixable draws an expression usable as callee / member object: mostly
// call-level-or-tighter (others get parenthesised by the unparser).
func (g *Syn) postfixable(d int) *ir.Node {
	r := g.R
	if r.Intn(10, "numrecv") == 0 {
		// a number literal of any shape as receiver / callee: `0x1F.toString`, `1 .x`, `2.5.y`
		return ir.N(ir.Num, r.NumText())
	}
	if d <= 0 || r.Intn(3, "pf") == 0 {
		return ir.N(ir.Ident, r.Ident())
	}
	return g.Expr(d)
}

func (g *Syn) Expr(d int) *ir.Node {
	r := g.R
	if d <= 0 {
		return g.leaf()
	}
	switch r.Pick("expr", 20, 30, 8, 5, 8, 12, 10, 5, 5, 5, 5) {
	case 0:
		return g.leaf()
	case 1:
		return ir.N(ir.Binary, BinOps[r.Intn(len(BinOps), "binop")], g.Expr(d-1), g.Expr(d-1))
	case 2:
		op := UnaryOps[r.Intn(len(UnaryOps), "unop")]
		if op == "++" || op == "--" {
			return ir.N(ir.Unary, op, g.Target(d-1))
		}
		return ir.N(ir.Unary, op, g.Expr(d-1))
	case 3:
		return ir.N(ir.Postfix, PostfixOps[r.Intn(2, "postop")], g.Target(d-1))
	case 4:
		return ir.N(ir.Assign, AssignOps[r.Intn(3, "asgop")], g.Target(d-1), g.Expr(d-1))
	case 5:
		n := ir.N(ir.Call, "", g.postfixable(d-1))
		for i, k := 0, r.Intn(4, "nargs"); i < k; i++ {
			n.Kids = append(n.Kids, g.Expr(d-1))
		}
		return n
	case 6:
		return ir.N(ir.Member, r.Ident(), g.postfixable(d-1))
	case 7:
		return ir.N(ir.Index, "", g.postfixable(d-1), g.Expr(d-1))
	case 8:
		n := ir.N(ir.Array, "")
		for i, k := 0, r.Intn(4, "nel"); i < k; i++ {
			n.Kids = append(n.Kids, g.Expr(d-1))
		}
		return n
	case 9:
		n := ir.N(ir.Object, "")
		for i, k := 0, r.Intn(4, "nprop"); i < k; i++ {
			var key *ir.Node
			switch r.Pick("key", 6, 2, 1) {
			case 0:
				key = ir.N(ir.Ident, r.Ident())
			case 1:
				key = r.SimpleStr()
			default:
				key = ir.N(ir.Num, fmt.Sprint(r.Intn(100, "numkey")))
			}
			n.Kids = append(n.Kids, key, g.Expr(d-1))
		}
		return n
	default:
		return g.FuncExpr(d - 1)
	}
}

func (g *Syn) params() []string {
	r := g.R
	ps := []string{}
	for i, k := 0, r.Intn(4, "nparams"); i < k; i++ {
		ps = append(ps, r.Ident())
	}
	return ps
}

func (g *Syn) FuncExpr(d int) *ir.Node {
	r := g.R
	name := ""
	if r.Intn(3, "named") == 0 {
		name = r.Ident()
	}
	sd := g.StmtDepth - 1
	if sd > 1 {
		sd = 1
	}
	n := &ir.Node{K: ir.Func, Op: name, Params: g.params()}
	n.Kids = []*ir.Node{g.block(sd, true, d, 3)}
	return n
}

func (g *Syn) block(sd int, inFunc bool, d int, max int) *ir.Node {
	b := ir.N(ir.Block, "")
	b.Kids = []*ir.Node{}
	for i, k := 0, g.R.Intn(max+1, "nstmts"); i < k; i++ {
		b.Kids = append(b.Kids, g.Stmt(sd, inFunc, d))
	}
	return b
}

// EndsOpenIf reports whether a brace-less statement ends with an `if` that has
// no `else` (so that a following `else` would attach to it).
func EndsOpenIf(s *ir.Node) bool {
	switch s.K {
	case ir.If:
		if s.Kids[2] == nil {
			return true
		}
		return EndsOpenIf(s.Kids[2])
	case ir.While:
		return EndsOpenIf(s.Kids[1])
	case ir.For:
		return EndsOpenIf(s.Kids[3])
	}
	return false
}

// body draws the body of if/while/for: a block or a brace-less statement.
func (g *Syn) body(sd int, inFunc bool, d int) *ir.Node {
	r := g.R
	if sd <= 0 || r.Intn(5, "braceless") < 3 {
		return g.block(sd-1, inFunc, d, 3)
	}
	for {
		s := g.Stmt(sd-1, inFunc, d)
		if s.K == ir.Let || s.K == ir.FuncDecl {
			return ir.N(ir.Block, "", s)
		}
		return s
	}
}

func (g *Syn) Stmt(sd int, inFunc bool, d int) *ir.Node {
	r := g.R
	ret := 0
	if inFunc {
		ret = 12
	}
	nest := 1
	if sd <= 0 {
		nest = 0
	}
	switch r.Pick("stmt", 20, 32, 12*nest, 6*nest, 8*nest, 5*nest, 8*nest, ret) {
	case 0:
		n := ir.N(ir.Let, r.Ident(), nil)
		if r.Intn(5, "init") > 0 {
			n.Kids[0] = g.Expr(d)
		}
		return n
	case 1:
		return ir.N(ir.ExprStmt, "", g.Expr(d))
	case 2:
		n := ir.N(ir.If, "", g.Expr(d), nil, nil)
		n.Kids[1] = g.body(sd, inFunc, d)
		if r.Bool("else") {
			if n.Kids[1].K != ir.Block && EndsOpenIf(n.Kids[1]) && !g.Dangling {
				n.Kids[1] = ir.N(ir.Block, "", n.Kids[1])
			}
			n.Kids[2] = g.body(sd, inFunc, d)
		}
		return n
	case 3:
		return ir.N(ir.While, "", g.Expr(d), g.body(sd, inFunc, d))
	case 4:
		n := ir.N(ir.For, "", nil, nil, nil, nil)
		switch r.Pick("forinit", 5, 3, 2) {
		case 0:
			l := ir.N(ir.Let, r.Ident(), nil)
			if r.Intn(6, "init") > 0 {
				l.Kids[0] = g.Expr(d)
			}
			n.Kids[0] = l
		case 1:
			n.Kids[0] = g.Expr(d)
		}
		if r.Intn(4, "forcond") > 0 {
			n.Kids[1] = g.Expr(d)
		}
		if r.Intn(4, "forupd") > 0 {
			n.Kids[2] = g.Expr(d)
		}
		n.Kids[3] = g.body(sd, inFunc, d)
		return n
	case 5:
		return g.block(sd-1, inFunc, d, 3)
	case 6:
		n := &ir.Node{K: ir.FuncDecl, Op: r.Ident(), Params: g.params()}
		n.Kids = []*ir.Node{g.block(sd-1, true, d, 3)}
		return n
	default:
		n := ir.N(ir.Return, "", nil)
		if r.Intn(4, "retval") > 0 {
			n.Kids[0] = g.Expr(d)
		}
		return n
	}
}

// Program draws a whole program with up to max top-level statements.  One
// program in sixteen is scaled up (see scaleUp) unless NoScale is set.
func (g *Syn) Program(max int) *ir.Node {
	p := ir.N(ir.Program, "")
	p.Kids = []*ir.Node{}
	for i, k := 0, g.R.Intn(max+1, "ntop"); i < k; i++ { // also the empty program (a file with nothing but white space and comments)
		p.Kids = append(p.Kids, g.Stmt(g.StmtDepth, false, g.MaxDepth))
	}
	if !g.NoScale && g.R.Intn(16, "scale") == 0 {
		g.scaleUp(p)
		g.Scaled = true
	}
	return p
}

// scaleUp appends constructs whose *size* is unusual: nesting deeper than any
// small fixed capacity (17..40 levels of blocks / functions / conditionals,
// of parenthesised operands, of array literals and of call arguments), very
// long identifiers and strings, and a run of 40..140 one-line statements with
// distinct names (more than a hundred names, more than 64 lines, columns
// beyond 64 and 1024).
func (g *Syn) scaleUp(p *ir.Node) {
	r := g.R
	id := func(s string) *ir.Node { return ir.N(ir.Ident, s) }
	switch r.Intn(5, "scalekind") {
	case 0: // deep statement nesting
		// mostly 17..40 mixed levels; sometimes beyond any plausible fixed capacity:
		// 130..200 nested functions (two context entries each) or 256..300 nested blocks
		depth, only := 17+r.Intn(24, "nestdepth"), -1
		mode := r.Intn(5, "nestmode")
		switch mode {
		case 2:
			depth, only = 130+r.Intn(71, "fndepth"), 3+r.Intn(2, "fnkind")
		case 3:
			depth, only = 256+r.Intn(45, "blkdepth"), 0
		case 4:
			// a function below 60..300 levels that are not functions (blocks and
			// the bodies of conditionals and loops), sometimes with another
			// function around all of it
			depth = 60 + r.Intn(241, "plaindepth")
			if r.Intn(3, "plainsmall") == 0 {
				depth = 60 + r.Intn(10, "plainedge")
			}
		}
		var cur *ir.Node = ir.N(ir.Block, "", ir.N(ir.ExprStmt, "", ir.N(ir.Call, "", id("leaf"), id("a"))))
		if mode == 4 {
			inner := ir.N(ir.Block, "", ir.N(ir.ExprStmt, "", ir.N(ir.Call, "", id("leaf"), id("a"))), ir.N(ir.Return, "", id("a")))
			if r.Bool("innerdecl") {
				cur = ir.N(ir.Block, "", &ir.Node{K: ir.FuncDecl, Op: "deepest", Params: []string{"p"}, Kids: []*ir.Node{inner}}, ir.N(ir.ExprStmt, "", id("after")))
			} else {
				cur = ir.N(ir.Block, "", ir.N(ir.Let, "deepest", &ir.Node{K: ir.Func, Params: []string{"p"}, Kids: []*ir.Node{inner}}), ir.N(ir.ExprStmt, "", id("after")))
			}
		}
		for i := 0; i < depth; i++ {
			kind := only
			if kind < 0 {
				kind = r.Intn(5, "nestkind")
			}
			if mode == 4 {
				kind = r.Intn(3, "plainkind")
				if i == depth-1 && r.Intn(3, "outerfn") == 0 {
					kind = 3
				}
			}
			switch kind {
			case 0:
				cur = ir.N(ir.Block, "", cur, ir.N(ir.ExprStmt, "", id("n"+strconv.Itoa(i))))
			case 1:
				cur = ir.N(ir.Block, "", ir.N(ir.If, "", id("c"+strconv.Itoa(i)), cur, nil))
			case 2:
				cur = ir.N(ir.Block, "", ir.N(ir.While, "", id("w"), cur))
			case 3:
				cur = ir.N(ir.Block, "", &ir.Node{K: ir.FuncDecl, Op: "f" + strconv.Itoa(i), Params: []string{"p"}, Kids: []*ir.Node{cur}})
			default:
				fe := &ir.Node{K: ir.Func, Params: []string{}, Kids: []*ir.Node{cur}}
				cur = ir.N(ir.Block, "", ir.N(ir.ExprStmt, "", ir.N(ir.Call, "", id("run"), fe)))
			}
		}
		p.Kids = append(p.Kids, cur)
	case 1: // deep expression nesting: operands that need parentheses at every level, arrays, calls
		depth := 17 + r.Intn(24, "exprdepth")
		e, arr, call := id("z"), id("z"), id("z")
		for i := 0; i < depth; i++ {
			if i%2 == 0 {
				e = ir.N(ir.Binary, "+", id("a"), e)
			} else {
				e = ir.N(ir.Binary, "*", id("b"), e)
			}
			arr = ir.N(ir.Array, "", arr, ir.N(ir.Num, strconv.Itoa(i)))
			call = ir.N(ir.Call, "", id("f"), call, id("k"))
		}
		p.Kids = append(p.Kids, ir.N(ir.Let, "deepExpr", e), ir.N(ir.Let, "deepArr", arr), ir.N(ir.ExprStmt, "", call))
	case 2: // long tokens
		long := strings.Repeat("longIdentifier_", 4+r.Intn(40, "idlen")) + "x"
		text := strings.Repeat("some text ", 10+r.Intn(120, "strlen"))
		if r.Intn(4, "hugetoken") == 0 {
			// one token of more than 64 KiB at the very beginning: every later
			// token of the compact output lies beyond column 65535, and the
			// pretty output has a line longer than any common buffer size
			text = strings.Repeat("sixteen bytes.. ", 4100+r.Intn(300, "hugelen"))
			p.Kids = append([]*ir.Node{ir.N(ir.Let, "huge", StrOf(text, "\""))}, p.Kids...)
			text = "short"
		}
		p.Kids = append(p.Kids, ir.N(ir.Let, long, StrOf(text, "\"")), ir.N(ir.ExprStmt, "", ir.N(ir.Assign, "=", id(long), ir.N(ir.Binary, "+", id(long), ir.N(ir.Num, "12345678901234567")))))
	case 3: // many one-line statements with distinct names
		if r.Intn(3, "flatlong") == 0 {
			// a long flat file: more than a thousand statements with empty
			// argument lists and empty array literals (resources that are taken
			// per construct and must be given back per construct)
			n := 1001 + r.Intn(1500, "nflat")
			for i := 0; i < n; i++ {
				if i%3 == 2 {
					p.Kids = append(p.Kids, ir.N(ir.ExprStmt, "", ir.N(ir.Assign, "=", id("e"+strconv.Itoa(i%7)), ir.N(ir.Array, ""))))
				} else {
					p.Kids = append(p.Kids, ir.N(ir.ExprStmt, "", ir.N(ir.Call, "", id("tick"+strconv.Itoa(i%5)))))
				}
			}
			p.Kids = append(p.Kids, ir.N(ir.ExprStmt, "", ir.N(ir.Call, "", id("last"), ir.N(ir.Array, "", id("a")), ir.N(ir.Binary, "*", id("b"), ir.N(ir.Binary, "+", id("c"), id("d"))))))
			break
		}
		n := 40 + r.Intn(100, "nlines")
		for i := 0; i < n; i++ {
			name := "line" + strconv.Itoa(i)
			p.Kids = append(p.Kids, ir.N(ir.Let, name, ir.N(ir.Binary, "+", id(name+"src"), ir.N(ir.Num, strconv.Itoa(i)))))
		}
	default: // one very long line: a call with many arguments (columns beyond 1024)
		n := 60 + r.Intn(200, "nargs")
		args := []*ir.Node{id("wide")}
		for i := 0; i < n; i++ {
			args = append(args, ir.N(ir.Binary, "==", id("arg"+strconv.Itoa(i)), ir.N(ir.Num, strconv.Itoa(i))))
		}
		p.Kids = append(p.Kids, ir.N(ir.ExprStmt, "", ir.N(ir.Call, "", args...)))
	}
}
