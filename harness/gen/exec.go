package gen

import (
	"fmt"

	"verif/harness/ir"
)

// genExec: well-scoped, terminating, observable programs.

type vkind int

const (
	kNum vkind = iota
	kStr
	kBool
	kArr
	kObj
	kFn
	kNull
	nKinds
)

type evar struct {
	name  string
	kind  vkind
	arity int
	ro    bool // loop counters and fuel variables are not assigned by generated code
}

type Exec struct {
	R        R
	scopes   [][]evar
	counter  int
	funcs    []evar // declared function names (global)
	inFunc   bool
	Features map[string]int
	budget   int
}

func NewExec(r R) *Exec {
	return &Exec{R: r, scopes: [][]evar{{}}, Features: map[string]int{}, budget: 60}
}

func (g *Exec) feat(s string) { g.Features[s]++ }

func (g *Exec) fresh(prefix string) string {
	g.counter++
	return fmt.Sprintf("%s%d", prefix, g.counter)
}

func (g *Exec) push() { g.scopes = append(g.scopes, []evar{}) }
func (g *Exec) pop()  { g.scopes = g.scopes[:len(g.scopes)-1] }
func (g *Exec) declare(v evar) {
	g.scopes[len(g.scopes)-1] = append(g.scopes[len(g.scopes)-1], v)
}

func (g *Exec) visible(pred func(evar) bool) []evar {
	var out []evar
	for _, s := range g.scopes {
		for _, v := range s {
			if pred(v) {
				out = append(out, v)
			}
		}
	}
	return out
}

func (g *Exec) pickVar(k vkind, writable bool) (evar, bool) {
	vs := g.visible(func(v evar) bool { return v.kind == k && (!writable || !v.ro) })
	if len(vs) == 0 {
		return evar{}, false
	}
	return vs[g.R.Intn(len(vs), "var")], true
}

func idn(s string) *ir.Node { return ir.N(ir.Ident, s) }
func num(s string) *ir.Node { return ir.N(ir.Num, s) }
func call(f *ir.Node, args ...*ir.Node) *ir.Node {
	return ir.N(ir.Call, "", append([]*ir.Node{f}, args...)...)
}
func bin(op string, l, r *ir.Node) *ir.Node { return ir.N(ir.Binary, op, l, r) }
func estmt(e *ir.Node) *ir.Node             { return ir.N(ir.ExprStmt, "", e) }
func printOf(args ...*ir.Node) *ir.Node     { return estmt(call(idn("print"), args...)) }

func (g *Exec) smallInt() *ir.Node { return num(fmt.Sprint(g.R.Intn(10, "smallint"))) }

// Expr draws an expression that usually has kind k.
func (g *Exec) Expr(k vkind, d int) *ir.Node {
	r := g.R
	if r.Intn(40, "illkinded") == 0 {
		// never a function: its source text is observable through string conversion
		k = []vkind{kNum, kStr, kBool, kArr, kObj, kNull}[r.Intn(6, "otherkind")]
		g.feat("ill-kinded-operand")
	}
	if d <= 0 {
		return g.atom(k)
	}
	switch k {
	case kNum:
		switch r.Pick("numexpr", 14, 18, 6, 4, 4, 5, 5, 4, 4) {
		case 0:
			return g.atom(kNum)
		case 1:
			op := []string{"+", "-", "*", "/", "%"}[r.Intn(5, "arith")]
			l, rt := g.Expr(kNum, d-1), g.Expr(kNum, d-1)
			return bin(op, l, rt)
		case 2:
			// sign-adjacent forms
			g.feat("sign-adjacent")
			switch r.Intn(6, "signform") {
			case 0:
				return bin("-", g.Expr(kNum, d-1), ir.N(ir.Unary, "-", g.Expr(kNum, d-1)))
			case 1:
				if v, ok := g.pickVar(kNum, true); ok {
					return bin("+", g.Expr(kNum, d-1), ir.N(ir.Unary, "++", idn(v.name)))
				}
				return ir.N(ir.Unary, "-", ir.N(ir.Unary, "-", g.Expr(kNum, d-1)))
			case 2:
				return ir.N(ir.Unary, "-", ir.N(ir.Unary, "-", g.Expr(kNum, d-1)))
			case 3:
				if v, ok := g.pickVar(kNum, true); ok {
					return bin("-", ir.N(ir.Postfix, "--", idn(v.name)), g.Expr(kNum, d-1))
				}
				return bin("-", g.atom(kNum), ir.N(ir.Unary, "-", g.atom(kNum)))
			case 4:
				if v, ok := g.pickVar(kNum, true); ok {
					return bin("-", g.Expr(kNum, d-1), ir.N(ir.Unary, "--", idn(v.name)))
				}
				return bin("+", g.atom(kNum), ir.N(ir.Unary, "-", g.atom(kNum)))
			default:
				if v, ok := g.pickVar(kNum, true); ok {
					return ir.N(ir.Unary, "-", ir.N(ir.Unary, "--", idn(v.name)))
				}
				return ir.N(ir.Unary, "-", g.atom(kNum))
			}
		case 3:
			return ir.N(ir.Unary, "-", g.Expr(kNum, d-1))
		case 4:
			if v, ok := g.pickVar(kNum, true); ok {
				g.feat("incdec")
				if r.Bool("prefix") {
					return ir.N(ir.Unary, []string{"++", "--"}[r.Intn(2, "op")], idn(v.name))
				}
				return ir.N(ir.Postfix, []string{"++", "--"}[r.Intn(2, "op")], idn(v.name))
			}
			return g.atom(kNum)
		case 5:
			return ir.N(ir.Member, "length", g.Expr([]vkind{kArr, kStr}[r.Intn(2, "lenof")], d-1))
		case 6:
			return ir.N(ir.Index, "", g.Expr(kArr, d-1), g.smallInt())
		case 7:
			if v, ok := g.pickVar(kNum, true); ok {
				g.feat("assign-expr")
				return ir.N(ir.Assign, AssignOps[r.Intn(3, "asgop")], idn(v.name), g.Expr(kNum, d-1))
			}
			return g.atom(kNum)
		default:
			return g.callFn(d)
		}
	case kStr:
		switch r.Pick("strexpr", 10, 8, 4, 3, 3, 3) {
		case 0:
			return g.atom(kStr)
		case 1:
			return bin("+", g.Expr(kStr, d-1), g.Expr([]vkind{kStr, kNum, kBool}[r.Intn(3, "catkind")], d-1))
		case 2:
			return ir.N(ir.Index, "", g.Expr(kStr, d-1), g.smallInt())
		case 3:
			return call(ir.N(ir.Member, "join", g.Expr(kArr, d-1)), StrOf([]string{",", "", "-"}[r.Intn(3, "sep")], "\""))
		case 4:
			g.feat("number-receiver")
			return call(ir.N(ir.Member, "toString", num(fmt.Sprint(r.Intn(300, "recv")))))
		default:
			return call(ir.N(ir.Member, []string{"toUpperCase", "trim", "toLowerCase"}[r.Intn(3, "strm")], g.Expr(kStr, d-1)))
		}
	case kBool:
		switch r.Pick("boolexpr", 6, 12, 5, 6, 4, 2) {
		case 0:
			return g.atom(kBool)
		case 5:
			// operator sequences that white-space removal could fuse into another
			// token: `<` `!` `--` (the HTML-like comment opener of Annex B.1.3)
			// and `--` `>`
			if v, ok := g.pickVar(kNum, true); ok {
				g.feat("lt-not-decrement")
				if r.Bool("gtform") {
					return bin(">", ir.N(ir.Postfix, "--", idn(v.name)), g.Expr(kNum, d-1))
				}
				return bin("<", g.Expr(kNum, d-1), ir.N(ir.Unary, "!", ir.N(ir.Unary, "--", idn(v.name))))
			}
			return bin("<", g.atom(kNum), ir.N(ir.Unary, "!", g.atom(kNum)))
		case 1:
			op := []string{"<", ">", "<=", ">=", "==", "!="}[r.Intn(6, "cmp")]
			kk := []vkind{kNum, kNum, kStr}[r.Intn(3, "cmpkind")]
			return bin(op, g.Expr(kk, d-1), g.Expr(kk, d-1))
		case 2:
			return ir.N(ir.Unary, "!", g.Expr(vkind(r.Intn(int(kFn), "notkind")), d-1))
		case 3:
			return bin([]string{"&&", "||"}[r.Intn(2, "logic")], g.Expr(kBool, d-1), g.Expr(kBool, d-1))
		default:
			return bin([]string{"==", "!="}[r.Intn(2, "eq")], g.Expr(vkind(r.Intn(int(kFn), "eqk1")), d-1), g.Expr(vkind(r.Intn(int(kFn), "eqk2")), d-1))
		}
	case kArr:
		switch r.Pick("arrexpr", 6, 8, 2) {
		case 0:
			return g.atom(kArr)
		case 1:
			n := ir.N(ir.Array, "")
			for i, m := 0, r.Intn(4, "nel"); i < m; i++ {
				n.Kids = append(n.Kids, g.Expr(vkind(r.Intn(3, "elkind")), d-1))
			}
			return n
		default:
			return call(ir.N(ir.Member, "concat", g.Expr(kArr, d-1)), g.Expr(kArr, d-1))
		}
	case kObj:
		if r.Intn(3, "objvar") == 0 {
			return g.atom(kObj)
		}
		n := ir.N(ir.Object, "")
		used := map[string]bool{}
		for i, m := 0, r.Intn(4, "nprop"); i < m; i++ {
			var key *ir.Node
			var kn string
			switch r.Pick("key", 6, 2, 1) {
			case 0:
				kn = []string{"a", "b", "k", "len", "x"}[r.Intn(5, "keyname")]
				key = idn(kn)
			case 1:
				kn = []string{"s t", "a", "q"}[r.Intn(3, "strkey")]
				key = StrOf(kn, []string{"\"", "'"}[r.Intn(2, "quote")])
			default:
				kn = fmt.Sprint(r.Intn(5, "numkey"))
				key = num(kn)
			}
			if used[kn] {
				continue
			}
			used[kn] = true
			n.Kids = append(n.Kids, key, g.Expr(vkind(r.Intn(4, "propkind")), d-1))
		}
		return n
	case kFn:
		if v, ok := g.pickVar(kFn, false); ok && r.Bool("fnvar") {
			return idn(v.name)
		}
		return g.funcExpr(d)
	default:
		return ir.N(ir.Null, "")
	}
}

func (g *Exec) callFn(d int) *ir.Node {
	r := g.R
	fs := g.visible(func(v evar) bool { return v.kind == kFn })
	fs = append(fs, g.funcs...)
	if len(fs) == 0 || r.Intn(5, "iife") == 0 {
		g.feat("iife")
		f := g.funcExpr(d - 1)
		c := call(f)
		for range f.Params {
			c.Kids = append(c.Kids, g.Expr(kNum, d-1))
		}
		return c
	}
	f := fs[r.Intn(len(fs), "fn")]
	c := call(idn(f.name))
	for i := 0; i < f.arity; i++ {
		c.Kids = append(c.Kids, g.Expr(vkind(r.Intn(3, "argkind")), d-1))
	}
	g.feat("call")
	return c
}

func (g *Exec) funcExpr(d int) *ir.Node {
	r := g.R
	n := &ir.Node{K: ir.Func, Params: []string{}}
	if r.Intn(4, "named") == 0 {
		n.Op = g.fresh("nf")
	}
	g.push()
	wasIn := g.inFunc
	g.inFunc = true
	for i, m := 0, r.Intn(3, "nparams"); i < m; i++ {
		p := g.fresh("p")
		n.Params = append(n.Params, p)
		g.declare(evar{name: p, kind: kNum})
	}
	body := ir.N(ir.Block, "")
	body.Kids = []*ir.Node{}
	for i, m := 0, r.Intn(3, "nbody"); i < m; i++ {
		body.Kids = append(body.Kids, g.Stmt(1, d))
	}
	if r.Intn(5, "noret") > 0 {
		body.Kids = append(body.Kids, ir.N(ir.Return, "", g.Expr(kNum, d)))
	}
	g.inFunc = wasIn
	g.pop()
	n.Kids = []*ir.Node{body}
	g.feat("function-expression")
	return n
}

func (g *Exec) atom(k vkind) *ir.Node {
	r := g.R
	if v, ok := g.pickVar(k, false); ok && r.Intn(3, "usevar") > 0 {
		return idn(v.name)
	}
	switch k {
	case kNum:
		return num(r.NumText())
	case kStr:
		switch r.Intn(4, "stratom") {
		case 0:
			g.feat("rich-string")
			return r.RichStr(5)
		case 1:
			g.feat("template")
			return r.TplNode(true)
		}
		return r.SimpleStr()
	case kBool:
		return ir.N(ir.Bool, []string{"true", "false"}[r.Intn(2, "bool")])
	case kArr:
		return ir.N(ir.Array, "", g.smallInt(), g.smallInt())
	case kObj:
		return ir.N(ir.Object, "", idn("k"), g.smallInt())
	case kFn:
		return g.funcExpr(1)
	default:
		return ir.N(ir.Null, "")
	}
}

func (g *Exec) block(sd, d, max int) *ir.Node {
	g.push()
	b := ir.N(ir.Block, "")
	b.Kids = []*ir.Node{}
	for i, m := 0, g.R.Intn(max+1, "nstmts"); i < m; i++ {
		b.Kids = append(b.Kids, g.Stmt(sd, d))
	}
	g.pop()
	return b
}

func (g *Exec) body(sd, d int) *ir.Node {
	if sd <= 0 || g.R.Intn(3, "braceless") > 0 {
		return g.block(sd-1, d, 3)
	}
	g.feat("braceless-body")
	g.push()
	defer g.pop()
	for {
		s := g.Stmt(sd-1, d)
		if s.K == ir.Let || s.K == ir.FuncDecl {
			continue
		}
		return s
	}
}

// Stmt draws one statement.
func (g *Exec) Stmt(sd, d int) *ir.Node {
	r := g.R
	g.budget--
	nest := 1
	if sd <= 0 || g.budget <= 0 {
		nest = 0
	}
	ret := 0
	if g.inFunc {
		ret = 4
	}
	switch r.Pick("estmt", 18, 22, 12, 10*nest, 5*nest, 7*nest, 3*nest, 4*nest, ret, 1) {
	case 0:
		k := vkind(r.Intn(int(kFn)+1, "letkind"))
		name := g.fresh("v")
		var init *ir.Node
		arity := 0
		if k == kFn {
			f := g.funcExpr(d)
			arity = len(f.Params)
			init = f
		} else {
			init = g.Expr(k, d)
		}
		g.declare(evar{name: name, kind: k, arity: arity})
		return ir.N(ir.Let, name, init)
	case 1:
		n := 1 + r.Intn(3, "nprint")
		args := []*ir.Node{}
		for i := 0; i < n; i++ {
			args = append(args, g.Expr(vkind(r.Intn(int(kFn), "printkind")), d))
		}
		return printOf(args...)
	case 2:
		// mutation
		switch r.Intn(5, "mut") {
		case 0:
			if v, ok := g.pickVar(kNum, true); ok {
				return estmt(ir.N(ir.Assign, AssignOps[r.Intn(3, "asgop")], idn(v.name), g.Expr(kNum, d)))
			}
		case 1:
			if v, ok := g.pickVar(kStr, true); ok {
				return estmt(ir.N(ir.Assign, []string{"=", "+="}[r.Intn(2, "asgop")], idn(v.name), g.Expr(kStr, d)))
			}
		case 2:
			if v, ok := g.pickVar(kArr, false); ok {
				return estmt(ir.N(ir.Assign, "=", ir.N(ir.Index, "", idn(v.name), g.smallInt()), g.Expr(kNum, d)))
			}
		case 3:
			if v, ok := g.pickVar(kObj, false); ok {
				return estmt(ir.N(ir.Assign, AssignOps[r.Intn(3, "asgop")], ir.N(ir.Member, []string{"a", "k", "z"}[r.Intn(3, "prop")], idn(v.name)), g.Expr(kNum, d)))
			}
		default:
			if v, ok := g.pickVar(kNum, true); ok {
				g.feat("incdec-statement")
				if r.Bool("prefix") {
					return estmt(ir.N(ir.Unary, []string{"++", "--"}[r.Intn(2, "op")], idn(v.name)))
				}
				return estmt(ir.N(ir.Postfix, []string{"++", "--"}[r.Intn(2, "op")], idn(v.name)))
			}
		}
		return printOf(g.Expr(kNum, d))
	case 3:
		n := ir.N(ir.If, "", g.Expr(kBool, d), nil, nil)
		n.Kids[1] = g.body(sd, d)
		if r.Bool("else") {
			if n.Kids[1].K != ir.Block && EndsOpenIf(n.Kids[1]) {
				n.Kids[1] = ir.N(ir.Block, "", n.Kids[1])
			}
			n.Kids[2] = g.body(sd, d)
		}
		g.feat("if")
		return n
	case 4:
		// while with fuel: the loop is wrapped in a block holding the fuel variable
		fuel := g.fresh("w")
		g.push()
		g.declare(evar{name: fuel, kind: kNum, ro: true})
		var cond *ir.Node
		var pre *ir.Node
		if r.Bool("fuelincond") {
			cond = bin(">", ir.N(ir.Postfix, "--", idn(fuel)), num("0"))
		} else {
			cond = bin(">", idn(fuel), num("0"))
			pre = estmt(ir.N(ir.Postfix, "--", idn(fuel)))
		}
		if r.Intn(3, "andcond") == 0 {
			cond = bin("&&", cond, g.Expr(kBool, d))
		}
		body := g.block(sd-1, d, 3)
		if pre != nil {
			body.Kids = append([]*ir.Node{pre}, body.Kids...)
		}
		g.pop()
		g.feat("while")
		return ir.N(ir.Block, "", ir.N(ir.Let, fuel, num(fmt.Sprint(1+r.Intn(4, "fuel")))), ir.N(ir.While, "", cond, body))
	case 5:
		iv := g.fresh("i")
		bound := num(fmt.Sprint(r.Intn(5, "bound")))
		g.push()
		g.declare(evar{name: iv, kind: kNum, ro: true})
		var init, cond, upd *ir.Node
		switch r.Intn(3, "forform") {
		case 0:
			init = ir.N(ir.Let, iv, num("0"))
			cond = bin("<", idn(iv), bound)
			upd = ir.N(ir.Postfix, "++", idn(iv))
		case 1:
			init = ir.N(ir.Let, iv, bound)
			cond = bin(">", idn(iv), num("0"))
			upd = ir.N(ir.Unary, "--", idn(iv))
		default:
			init = ir.N(ir.Let, iv, num("0"))
			cond = bin("<=", idn(iv), bound)
			upd = ir.N(ir.Assign, "+=", idn(iv), num("2"))
		}
		body := g.body(sd, d)
		g.pop()
		g.feat("for")
		return ir.N(ir.For, "", init, cond, upd, body)
	case 6:
		return g.block(sd-1, d, 3)
	case 7:
		// function declaration (global names are unique)
		if g.inFunc {
			return printOf(g.Expr(kNum, d))
		}
		name := g.fresh("f")
		n := &ir.Node{K: ir.FuncDecl, Op: name, Params: []string{}}
		g.push()
		g.inFunc = true
		for i, m := 0, r.Intn(3, "nparams"); i < m; i++ {
			p := g.fresh("p")
			n.Params = append(n.Params, p)
			g.declare(evar{name: p, kind: vkind(r.Intn(2, "paramkind"))})
		}
		body := ir.N(ir.Block, "")
		body.Kids = []*ir.Node{}
		for i, m := 0, r.Intn(4, "nbody"); i < m; i++ {
			body.Kids = append(body.Kids, g.Stmt(sd-1, d))
		}
		if r.Intn(4, "ret") > 0 {
			body.Kids = append(body.Kids, ir.N(ir.Return, "", g.Expr(vkind(r.Intn(3, "retkind")), d)))
		}
		g.inFunc = false
		g.pop()
		n.Kids = []*ir.Node{body}
		g.funcs = append(g.funcs, evar{name: name, kind: kFn, arity: len(n.Params)})
		g.feat("function-declaration")
		return n
	case 8:
		n := ir.N(ir.Return, "", nil)
		if r.Intn(4, "retval") > 0 {
			n.Kids[0] = g.Expr(vkind(r.Intn(3, "retkind")), d)
		} else if r.Bool("guard") {
			// a guard `if (c) return` followed by a statement whose first token could
			// continue an expression (- ( [ { or a backtick): after a line break the
			// bare return is complete and the next line is a statement of its own
			var next *ir.Node
			switch r.Intn(5, "afterreturn") {
			case 0:
				next = estmt(ir.N(ir.Unary, "-", g.Expr(kNum, 1)))
			case 1:
				next = estmt(call(ir.N(ir.Member, "toString", bin("+", g.Expr(kNum, 1), num("1")))))
			case 2:
				next = estmt(ir.N(ir.Member, "length", ir.N(ir.Array, "", g.Expr(kNum, 1))))
			case 3:
				next = ir.N(ir.Block, "")
				next.Kids = []*ir.Node{}
			default:
				next = estmt(ir.N(ir.Member, "length", ir.N(ir.Tpl, "t")))
			}
			g.feat("guard-return-then-hazard-start")
			return ir.N(ir.Block, "", ir.N(ir.If, "", g.Expr(kBool, 1), n, nil), next, printOf(g.Expr(kNum, 1)))
		}
		g.feat("early-return")
		return n
	default:
		// deliberate runtime error
		g.feat("deliberate-error")
		switch r.Intn(3, "errkind") {
		case 0:
			return estmt(call(ir.N(ir.Null, "")))
		case 1:
			return printOf(idn("undeclared_" + g.fresh("u")))
		default:
			return printOf(ir.N(ir.Member, "x", ir.N(ir.Member, "y", g.atom(kObj))))
		}
	}
}

// Program draws a whole executable program; the final statement prints every
// global variable.
func (g *Exec) Program(max int) *ir.Node {
	p := ir.N(ir.Program, "")
	p.Kids = []*ir.Node{}
	depth := 1 + g.R.Intn(3, "edepth")
	for i, n := 0, 1+g.R.Intn(max, "ntop"); i < n; i++ {
		p.Kids = append(p.Kids, g.Stmt(2, depth))
	}
	if g.R.Intn(4, "guardfn") == 0 {
		// a function with a guard `if (p > k) return` followed by a statement whose
		// first token could continue an expression; both outcomes are printed
		name, param := g.fresh("g"), g.fresh("p")
		var next *ir.Node
		switch g.R.Intn(5, "afterguard") {
		case 0:
			next = estmt(ir.N(ir.Unary, "-", idn(param)))
		case 1:
			next = estmt(call(ir.N(ir.Member, "toString", bin("+", idn(param), num("1")))))
		case 2:
			next = estmt(ir.N(ir.Member, "length", ir.N(ir.Array, "", idn(param))))
		case 3:
			next = ir.N(ir.Block, "")
			next.Kids = []*ir.Node{}
		default:
			next = estmt(ir.N(ir.Member, "length", ir.N(ir.Tpl, "t")))
		}
		body := ir.N(ir.Block, "", ir.N(ir.If, "", bin(">", idn(param), num("1")), ir.N(ir.Return, "", nil), nil), next, ir.N(ir.Return, "", bin("*", idn(param), num("2"))))
		p.Kids = append(p.Kids, &ir.Node{K: ir.FuncDecl, Op: name, Params: []string{param}, Kids: []*ir.Node{body}},
			printOf(call(idn(name), num("0")), call(idn(name), num("5"))))
		g.feat("guard-function")
	}
	var args []*ir.Node
	for _, v := range g.scopes[0] {
		args = append(args, idn(v.name))
	}
	if len(args) > 0 {
		p.Kids = append(p.Kids, printOf(args...))
	}
	if g.R.Intn(40, "fakedirective") == 0 {
		// a first statement that looks like a directive but is none, because one of
		// its characters is written as an escape ("use\x20strict" is an ordinary
		// string statement), and sloppy-only behaviour at the end: an assignment
		// to an undeclared name
		text := "use strict"
		k := g.R.Intn(len(text), "fdpos")
		str := &ir.Node{K: ir.Str, Quote: []string{"\"", "'"}[g.R.Intn(2, "fdq")], Pieces: []ir.Piece{}}
		for i := 0; i < len(text); i++ {
			if i == k {
				if g.R.Bool("fdhex") {
					str.Pieces = append(str.Pieces, HexPiece(int(text[i]), g.R.Bool("fdup")))
				} else {
					str.Pieces = append(str.Pieces, UniPiece(int(text[i]), g.R.Bool("fdup")))
				}
			} else {
				str.Pieces = append(str.Pieces, ir.Piece{Src: string(text[i]), Units: []uint16{uint16(text[i])}})
			}
		}
		name := g.fresh("undeclared")
		p.Kids = append([]*ir.Node{estmt(str)}, p.Kids...)
		p.Kids = append(p.Kids, estmt(ir.N(ir.Assign, "=", idn(name), num("1"))), printOf(idn(name)))
		g.feat("escaped-directive-lookalike")
	}
	return p
}
