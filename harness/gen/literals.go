package gen

import (
	"fmt"
	"strings"

	"verif/harness/ir"
)

var rawASCII = " !#$%&()*+,-./0123456789:;<=>?@ABCXYZ[]^_abcxyz{|}~"
var rawNonASCII = []rune{0xE9, 0xFC, 0x4E2D, 0x1F600, 0x3B1, 0xA0, 0xFFFD, 0x10FFFF, 0x7FF, 0x800, 0xFFFF, 0x10000}

// Piece families, used for classification in evidence.
const (
	PRaw = iota
	PRawNonASCII
	POtherQuote
	PSimpleEsc
	PIdentityEsc
	PHexEsc
	PUniEsc
	PUniBrace
	PLineCont
	PLegacyOctal
	PIdentityNonASCII
	nPieceFamilies
)

var PieceFamilyNames = []string{"raw", "raw-nonascii", "other-quote", "simple-escape", "identity-escape", "hex-escape", "unicode-escape", "unicode-brace-escape", "line-continuation", "legacy-octal-escape", "identity-escape-nonascii"}

// OctalPiece is a legacy octal escape: a backslash and one to three octal
// digits (three only when the first is 0-3), as sloppy-mode scripts allow.
func OctalPiece(digits string) ir.Piece {
	v := 0
	for _, d := range digits {
		v = v*8 + int(d-'0')
	}
	return ir.Piece{Src: "\\" + digits, Units: []uint16{uint16(v)}}
}

func isOctalEscape(src string) bool {
	if len(src) < 2 || len(src) > 4 || src[0] != '\\' {
		return false
	}
	for _, c := range src[1:] {
		if c < '0' || c > '7' {
			return false
		}
	}
	return true
}

var simpleEsc = map[byte]uint16{'n': 10, 't': 9, 'r': 13, 'b': 8, 'f': 12, 'v': 11, '0': 0, '\\': '\\', '\'': '\'', '"': '"'}
var simpleEscOrder = []byte{'n', 't', 'r', 'b', 'f', 'v', '0', '\\', '\'', '"'}
var identityEscChars = "aceghijklmopqswyzACEGZ -+*/.,;:!?()[]{}<>=&|^~@#$%_`"

// EscPiece returns the piece for a backslash followed by c (single-character
// escapes only: not x, u, digits 1-9, or line terminators).
func EscPiece(c byte) ir.Piece {
	if u, ok := simpleEsc[c]; ok {
		return ir.Piece{Src: "\\" + string(c), Units: []uint16{u}}
	}
	return ir.Piece{Src: "\\" + string(c), Units: []uint16{uint16(c)}}
}

func HexPiece(v int, upper bool) ir.Piece {
	f := "\\x%02x"
	if upper {
		f = "\\x%02X"
	}
	return ir.Piece{Src: fmt.Sprintf(f, v), Units: []uint16{uint16(v)}}
}

func UniPiece(v int, upper bool) ir.Piece {
	f := "\\u%04x"
	if upper {
		f = "\\u%04X"
	}
	return ir.Piece{Src: fmt.Sprintf(f, v), Units: []uint16{uint16(v)}}
}

func UniBracePiece(v int, width int, upper bool) ir.Piece {
	f := "\\u{%0*x}"
	if upper {
		f = "\\u{%0*X}"
	}
	return ir.Piece{Src: fmt.Sprintf(f, width, v), Units: utf16Of(rune(v))}
}

// Piece draws one string piece valid inside a literal quoted with q.
func (r R) Piece(q byte) (ir.Piece, int) {
	switch fam := r.Pick("piecefam", 30, 8, 8, 12, 6, 10, 10, 8, 3, 3, 2); fam {
	case PLegacyOctal:
		d1 := r.Intn(8, "od1")
		digits := string(rune('0' + d1))
		maxLen := 3
		if d1 >= 4 {
			maxLen = 2
		}
		for k := 1; k < maxLen && r.Intn(3, "omore") > 0; k++ {
			digits += string(rune('0' + r.Intn(8, "od")))
		}
		op := OctalPiece(digits)
		if r.Intn(3, "odigitafter") == 0 {
			// directly followed by an escape that denotes a digit: written raw, the
			// digit would become part of the octal escape
			d := r.Intn(10, "odigit")
			op.Src += fmt.Sprintf([]string{"\\x3%d", "\\u003%d", "\\u{3%d}"}[r.Intn(3, "odform")], d)
			op.Units = append(op.Units, uint16('0'+d))
		}
		return op, fam
	case PIdentityNonASCII:
		// a backslash in front of a non-ASCII character is an identity escape;
		// in front of U+2028/U+2029 it is a line continuation
		switch r.Intn(6, "idna") {
		case 0:
			return ir.Piece{Src: "\\\u2028", Units: nil}, fam
		case 1:
			return ir.Piece{Src: "\\\u2029", Units: nil}, fam
		}
		c := rawNonASCII[r.Intn(len(rawNonASCII), "nonascii")]
		return ir.Piece{Src: "\\" + string(c), Units: utf16Of(c)}, fam
	case PRaw:
		c := rawASCII[r.Intn(len(rawASCII), "rawc")]
		return ir.Piece{Src: string(c), Units: []uint16{uint16(c)}}, fam
	case PRawNonASCII:
		c := rawNonASCII[r.Intn(len(rawNonASCII), "nonascii")]
		return ir.Piece{Src: string(c), Units: utf16Of(c)}, fam
	case POtherQuote:
		o := byte('"')
		if q == '"' {
			o = '\''
		}
		if r.Intn(4, "bt") == 0 {
			o = '`'
		}
		return ir.Piece{Src: string(o), Units: []uint16{uint16(o)}}, fam
	case PSimpleEsc:
		if r.Intn(6, "bsrun") == 0 {
			// one to three escaped backslashes directly in front of a quote
			// character: the other quote raw, or the literal's own quote escaped
			n := 1 + r.Intn(3, "nbs")
			p := ir.Piece{}
			for i := 0; i < n; i++ {
				p.Src += "\\\\"
				p.Units = append(p.Units, '\\')
			}
			o := byte('"')
			if q == '"' {
				o = '\''
			}
			if r.Bool("ownquote") {
				p.Src += "\\" + string(q)
				p.Units = append(p.Units, uint16(q))
			} else {
				p.Src += string(o)
				p.Units = append(p.Units, uint16(o))
			}
			return p, fam
		}
		return EscPiece(simpleEscOrder[r.Intn(len(simpleEscOrder), "esc")]), fam
	case PIdentityEsc:
		return EscPiece(identityEscChars[r.Intn(len(identityEscChars), "idesc")]), fam
	case PHexEsc:
		v := r.Intn(256, "hexv")
		switch r.Intn(6, "hexsel") {
		case 0:
			v = []int{0x22, 0x27, 0x5C, 0x0A, 0x0D, 0x60, 0x00, 0x7F, 0x80, 0xFF, 0xE9}[r.Intn(11, "hexspecial")]
		}
		return HexPiece(v, r.Bool("upper")), fam
	case PUniEsc:
		v := r.Intn(0x10000, "univ")
		switch r.Intn(4, "unisel") {
		case 0:
			v = []int{0x22, 0x27, 0x5C, 0x0A, 0x0D, 0x60, 0x2028, 0x2029, 0xD83D, 0xDE00, 0xD800, 0xDFFF, 0xFFFF, 0x7F, 0x80, 0x7FF, 0x800, 0xFEFF}[r.Intn(18, "unispecial")]
		}
		up := UniPiece(v, r.Bool("upper"))
		if v >= 0xD800 && v <= 0xDBFF && r.Bool("hisurrfollow") {
			// a high surrogate directly followed by another escape that is not its
			// low half: an escaped backslash or the escaped delimiter
			if r.Bool("hsbackslash") {
				up.Src += "\\\\"
				up.Units = append(up.Units, '\\')
			} else {
				up.Src += "\\" + string(q)
				up.Units = append(up.Units, uint16(q))
			}
		}
		return up, fam
	case PUniBrace:
		var v int
		switch r.Intn(3, "ubsel") {
		case 0:
			v = []int{0, 0x22, 0x27, 0x5C, 0x0A, 0x41, 0x7F, 0x80, 0x7FF, 0x800, 0xFFFF, 0x10000, 0x1F600, 0x10FFFF, 0xD800, 0xDFFF}[r.Intn(16, "ubspecial")]
		case 1:
			v = r.Intn(0x110000, "ubv")
		default:
			v = r.Intn(0x800, "ubvsmall")
		}
		min := len(fmt.Sprintf("%x", v))
		w := min
		if r.Intn(3, "ubpad") == 0 {
			w = min + r.Intn(7-min+1, "ubw")
			if w > 6 && min <= 6 {
				w = 6
			}
		}
		return UniBracePiece(v, w, r.Bool("upper")), fam
	default:
		if r.Intn(3, "crlf") == 0 {
			return ir.Piece{Src: "\\\r\n", Units: nil}, PLineCont
		}
		return ir.Piece{Src: "\\\n", Units: nil}, PLineCont
	}
}

// fixSeq repairs sequences whose concatenation would change meaning: `\0`
// followed by a digit (legacy octal).
func fixSeq(ps []ir.Piece) []ir.Piece {
	out := ps[:0]
	for i, p := range ps {
		if i > 0 && isOctalEscape(out[len(out)-1].Src) && len(p.Src) > 0 && p.Src[0] >= '0' && p.Src[0] <= '9' {
			out = append(out, ir.Piece{Src: "-", Units: []uint16{'-'}})
		}
		out = append(out, p)
	}
	return out
}

// RichStr draws a string literal of up to n pieces from all families.
func (r R) RichStr(n int) *ir.Node {
	q := byte('"')
	if r.Bool("squote") {
		q = '\''
	}
	node := &ir.Node{K: ir.Str, Quote: string(q), Pieces: []ir.Piece{}}
	for i, k := 0, r.Intn(n+1, "npieces"); i < k; i++ {
		p, _ := r.Piece(q)
		node.Pieces = append(node.Pieces, p)
	}
	node.Pieces = fixSeq(node.Pieces)
	return node
}

// PieceFamilies classifies the pieces of a literal (for evidence counters).
func PieceFamilies(n *ir.Node) map[string]bool {
	m := map[string]bool{}
	for _, p := range n.Pieces {
		switch {
		case strings.HasPrefix(p.Src, "\\x"):
			m["hex-escape"] = true
		case strings.HasPrefix(p.Src, "\\u{"):
			m["unicode-brace-escape"] = true
		case strings.HasPrefix(p.Src, "\\u"):
			m["unicode-escape"] = true
		case p.Src == "\\\n" || p.Src == "\\\r\n":
			m["line-continuation"] = true
		case len(p.Src) >= 2 && p.Src[0] == '\\' && p.Src[1] >= '0' && p.Src[1] <= '7' && p.Src != "\\0":
			m["legacy-octal-escape"] = true
		case len(p.Src) > 1 && p.Src[0] == '\\' && p.Src[1] >= 0x80:
			m["identity-escape-nonascii"] = true
		case strings.HasPrefix(p.Src, "\\"):
			if _, ok := simpleEsc[p.Src[1]]; ok {
				m["simple-escape"] = true
			} else {
				m["identity-escape"] = true
			}
		case p.Src == "\"" || p.Src == "'" || p.Src == "`":
			m["other-quote"] = true
		case len(p.Src) > 0 && p.Src[0] >= 0x80:
			m["raw-nonascii"] = true
		default:
			m["raw"] = true
		}
	}
	return m
}

var tplRaw = " !\"#%&'()*+,-./019:;<=>?@AZ[]^_az{|}~"

// TplNode draws a backtick string.  Op holds the raw text between backticks.
func (r R) TplNode(multi bool) *ir.Node {
	var b strings.Builder
	for i, k := 0, r.Intn(8, "ntpl"); i < k; i++ {
		switch r.Pick("tplpiece", 30, 5, 5, 4, 4, 3, 3) {
		case 0:
			b.WriteByte(tplRaw[r.Intn(len(tplRaw), "tplc")])
		case 1:
			if multi {
				// white space around a line break: spaces, tabs, mixtures, also lines
				// that consist of nothing but tabs or spaces
				ws := func(label string) string {
					switch r.Intn(6, label) {
					case 0:
						return ""
					case 1:
						return " "
					case 2:
						return "  "
					case 3:
						return "\t"
					case 4:
						return "\t\t"
					}
					return " \t "
				}
				b.WriteString(ws("trail") + "\n" + ws("lead"))
				if r.Intn(4, "wsline") == 0 {
					b.WriteString("\n" + ws("lead2"))
				}
			} else {
				b.WriteString(" ")
			}
		case 2:
			b.WriteString("\\`")
		case 3:
			b.WriteString("\\\\")
		case 4:
			b.WriteString([]string{"\\n", "\\t", "\\x41", "\\u0041", "\\u{1F600}", "\\'", "\\\""}[r.Intn(7, "tplesc")])
		case 5:
			b.WriteString(string(rawNonASCII[r.Intn(len(rawNonASCII), "nonascii")]))
		default:
			if multi && r.Bool("crlf") {
				b.WriteString("\r\n")
			} else {
				b.WriteString("$")
				// never `${`: follow `$` by a space
				b.WriteString(" ")
			}
		}
	}
	return ir.N(ir.Tpl, b.String())
}
