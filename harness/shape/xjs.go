// Package shape converts the xjs AST and goja's AST into ir trees.
package shape

import (
	"fmt"
	"reflect"

	"github.com/xjslang/xjs/ast"

	"verif/harness/ir"
)

// CustomNode is implemented by the operator nodes the harness's own test
// plugins create (C05).
type CustomNode interface {
	CustomShape() (name string, operands []ast.Expression)
}

func isNilIface(v interface{}) bool {
	if v == nil {
		return true
	}
	rv := reflect.ValueOf(v)
	switch rv.Kind() {
	case reflect.Ptr, reflect.Slice, reflect.Map, reflect.Interface, reflect.Func:
		return rv.IsNil()
	}
	return false
}

// FromXJS converts a program.  It fails on a nil (also typed-nil) mandatory
// child or an unknown node type.
func FromXJS(p *ast.Program) (n *ir.Node, err error) {
	defer func() {
		if r := recover(); r != nil {
			if e, ok := r.(shapeErr); ok {
				n, err = nil, e
				return
			}
			panic(r)
		}
	}()
	if p == nil {
		return nil, shapeErr("nil program")
	}
	return convProgram(&xc{}, p), nil
}

func convProgram(c *xc, p *ast.Program) *ir.Node {
	out := ir.N(ir.Program, "")
	out.Kids = []*ir.Node{}
	for i, s := range p.Statements {
		out.Kids = append(out.Kids, c.xstmt(s, fmt.Sprintf("stmt[%d]", i)))
	}
	return out
}

// CheckComplete verifies only that every mandatory child is present (no nil
// or typed-nil where the printer dereferences); it accepts node combinations
// outside the subset (e.g. a non-identifier member property).
func CheckComplete(p *ast.Program) (err error) {
	defer func() {
		if r := recover(); r != nil {
			if e, ok := r.(shapeErr); ok {
				err = e
				return
			}
			panic(r)
		}
	}()
	if p == nil {
		return shapeErr("nil program")
	}
	convProgram(&xc{lenient: true}, p)
	return nil
}

// ExprFromXJS converts one expression.
func ExprFromXJS(e ast.Expression) (n *ir.Node, err error) {
	defer func() {
		if r := recover(); r != nil {
			if e, ok := r.(shapeErr); ok {
				n, err = nil, e
				return
			}
			panic(r)
		}
	}()
	return (&xc{}).xexpr(e, "expr"), nil
}

// ExprFromXJSLenient converts one expression, accepting node combinations
// outside the subset (non-identifier member properties).
func ExprFromXJSLenient(e ast.Expression) (n *ir.Node, err error) {
	defer func() {
		if r := recover(); r != nil {
			if e, ok := r.(shapeErr); ok {
				n, err = nil, e
				return
			}
			panic(r)
		}
	}()
	return (&xc{lenient: true}).xexpr(e, "expr"), nil
}

type xc struct{ lenient bool }

type shapeErr string

func (e shapeErr) Error() string { return string(e) }

func fail(f string, a ...interface{}) { panic(shapeErr(fmt.Sprintf(f, a...))) }

func (c *xc) xblock(b *ast.BlockStatement, where string) *ir.Node {
	if b == nil {
		fail("%s: nil block", where)
	}
	out := ir.N(ir.Block, "")
	out.Kids = []*ir.Node{}
	for i, s := range b.Statements {
		out.Kids = append(out.Kids, c.xstmt(s, fmt.Sprintf("%s/block[%d]", where, i)))
	}
	return out
}

func (c *xc) xident(i *ast.Identifier, where string) string {
	if i == nil {
		fail("%s: nil identifier", where)
	}
	return i.Value
}

func (c *xc) xparams(ps []*ast.Identifier, where string) []string {
	out := []string{}
	for _, p := range ps {
		out = append(out, c.xident(p, where+"/param"))
	}
	return out
}

func (c *xc) xopt(e ast.Expression, where string) *ir.Node {
	if e == nil {
		return nil
	}
	if isNilIface(e) {
		fail("%s: typed-nil expression %T", where, e)
	}
	return c.xexpr(e, where)
}

func (c *xc) xstmt(s ast.Statement, where string) *ir.Node {
	if isNilIface(s) {
		fail("%s: nil statement (%T)", where, s)
	}
	switch v := s.(type) {
	case *ast.LetStatement:
		return ir.N(ir.Let, c.xident(v.Name, where+"/let"), c.xopt(v.Value, where+"/let.value"))
	case *ast.ReturnStatement:
		return ir.N(ir.Return, "", c.xopt(v.ReturnValue, where+"/return"))
	case *ast.ExpressionStatement:
		return ir.N(ir.ExprStmt, "", c.xexpr(v.Expression, where+"/expr"))
	case *ast.FunctionDeclaration:
		return &ir.Node{K: ir.FuncDecl, Op: c.xident(v.Name, where+"/function"), Params: c.xparams(v.Parameters, where), Kids: []*ir.Node{c.xblock(v.Body, where+"/function.body")}}
	case *ast.BlockStatement:
		return c.xblock(v, where)
	case *ast.IfStatement:
		n := ir.N(ir.If, "", c.xexpr(v.Condition, where+"/if.cond"), c.xstmt(v.ThenBranch, where+"/if.then"), nil)
		if v.ElseBranch != nil {
			n.Kids[2] = c.xstmt(v.ElseBranch, where+"/if.else")
		}
		return n
	case *ast.WhileStatement:
		return ir.N(ir.While, "", c.xexpr(v.Condition, where+"/while.cond"), c.xstmt(v.Body, where+"/while.body"))
	case *ast.ForStatement:
		n := ir.N(ir.For, "", nil, c.xopt(v.Condition, where+"/for.cond"), c.xopt(v.Update, where+"/for.update"), c.xstmt(v.Body, where+"/for.body"))
		if v.Init != nil {
			if isNilIface(v.Init) {
				fail("%s: typed-nil for init", where)
			}
			if le, ok := v.Init.(*ast.LetExpression); ok {
				n.Kids[0] = ir.N(ir.Let, c.xident(le.Name, where+"/for.let"), c.xopt(le.Value, where+"/for.let.value"))
			} else {
				n.Kids[0] = c.xexpr(v.Init, where+"/for.init")
			}
		}
		return n
	}
	fail("%s: unknown statement type %T", where, s)
	return nil
}

func (c *xc) xexpr(e ast.Expression, where string) *ir.Node {
	if isNilIface(e) {
		fail("%s: nil expression (%T)", where, e)
	}
	switch v := e.(type) {
	case *ast.Identifier:
		return ir.N(ir.Ident, v.Value)
	case *ast.IntegerLiteral:
		return ir.N(ir.Num, v.Token.Literal)
	case *ast.FloatLiteral:
		return ir.N(ir.Num, v.Token.Literal)
	case *ast.StringLiteral:
		return ir.StrNode(v.Value)
	case *ast.MultiStringLiteral:
		return ir.N(ir.Tpl, v.Value)
	case *ast.BooleanLiteral:
		if v.Value {
			return ir.N(ir.Bool, "true")
		}
		return ir.N(ir.Bool, "false")
	case *ast.NullLiteral:
		return ir.N(ir.Null, "")
	case *ast.GroupedExpression:
		return c.xexpr(v.Expression, where+"/group")
	case *ast.UnaryExpression:
		return ir.N(ir.Unary, v.Operator, c.xexpr(v.Right, where+"/unary"))
	case *ast.PostfixExpression:
		return ir.N(ir.Postfix, v.Operator, c.xexpr(v.Left, where+"/postfix"))
	case *ast.BinaryExpression:
		return ir.N(ir.Binary, v.Operator, c.xexpr(v.Left, where+"/bin.left"), c.xexpr(v.Right, where+"/bin.right"))
	case *ast.AssignmentExpression:
		return ir.N(ir.Assign, "=", c.xexpr(v.Left, where+"/assign.left"), c.xexpr(v.Value, where+"/assign.value"))
	case *ast.CompoundAssignmentExpression:
		return ir.N(ir.Assign, v.Operator+"=", c.xexpr(v.Left, where+"/cassign.left"), c.xexpr(v.Value, where+"/cassign.value"))
	case *ast.CallExpression:
		n := ir.N(ir.Call, "", c.xexpr(v.Function, where+"/call.fn"))
		// a nil list is an empty list (nothing dereferences it)
		for i, a := range v.Arguments {
			n.Kids = append(n.Kids, c.xexpr(a, fmt.Sprintf("%s/call.arg[%d]", where, i)))
		}
		return n
	case *ast.MemberExpression:
		if v.Computed {
			return ir.N(ir.Index, "", c.xexpr(v.Object, where+"/index.obj"), c.xexpr(v.Property, where+"/index.prop"))
		}
		if isNilIface(v.Property) {
			fail("%s: member without property", where)
		}
		id, ok := v.Property.(*ast.Identifier)
		if !ok {
			if c.lenient {
				return ir.N(ir.Custom, "member-of-non-identifier", c.xexpr(v.Object, where+"/member.obj"), c.xexpr(v.Property, where+"/member.prop"))
			}
			fail("%s: member property is %T, not an identifier", where, v.Property)
		}
		return ir.N(ir.Member, id.Value, c.xexpr(v.Object, where+"/member.obj"))
	case *ast.ArrayLiteral:
		n := ir.N(ir.Array, "")
		// a nil list is an empty list
		for i, a := range v.Elements {
			n.Kids = append(n.Kids, c.xexpr(a, fmt.Sprintf("%s/array[%d]", where, i)))
		}
		return n
	case *ast.ObjectLiteral:
		n := ir.N(ir.Object, "")
		for i, p := range v.Properties {
			n.Kids = append(n.Kids, c.xexpr(p.Key, fmt.Sprintf("%s/obj.key[%d]", where, i)), c.xexpr(p.Value, fmt.Sprintf("%s/obj.value[%d]", where, i)))
		}
		return n
	case *ast.FunctionExpression:
		name := ""
		if v.Name != nil {
			name = v.Name.Value
		}
		return &ir.Node{K: ir.Func, Op: name, Params: c.xparams(v.Parameters, where), Kids: []*ir.Node{c.xblock(v.Body, where+"/fn.body")}}
	case *ast.LetExpression:
		if c.lenient {
			return ir.N(ir.Let, c.xident(v.Name, where+"/letexpr"), c.xopt(v.Value, where+"/letexpr.value"))
		}
		fail("%s: let expression outside a for initialiser", where)
	}
	if cn, ok := e.(CustomNode); ok {
		name, ops := cn.CustomShape()
		n := ir.N(ir.Custom, name)
		for i, o := range ops {
			n.Kids = append(n.Kids, c.xexpr(o, fmt.Sprintf("%s/custom[%d]", where, i)))
		}
		return n
	}
	fail("%s: unknown expression type %T", where, e)
	return nil
}
