package shape

import (
	"errors"
	"fmt"

	gast "github.com/dop251/goja/ast"
	gparser "github.com/dop251/goja/parser"
	gtoken "github.com/dop251/goja/token"

	"verif/harness/ir"
)

// ParseJS parses text with goja's parser (the reference JavaScript parser)
// and converts the result.  err is a syntax error of the reference parser or
// a construct outside the subset.
func ParseJS(src string) (n *ir.Node, err error) {
	prog, perr := safeParseFile(src)
	if perr != nil {
		return nil, perr
	}
	return FromGoja(prog)
}

// ErrRefLimit marks inputs the reference parser cannot handle at all (goja
// panics on `\u{...}` escapes of astral code points): not a verdict on the
// input.
var ErrRefLimit = errors.New("reference parser limitation")

func safeParseFile(src string) (prog *gast.Program, err error) {
	defer func() {
		if r := recover(); r != nil {
			prog, err = nil, fmt.Errorf("%w: goja parser panicked: %v", ErrRefLimit, r)
		}
	}()
	return gparser.ParseFile(nil, "", src, 0)
}

// JSValid reports whether the reference parser accepts the text.
func JSValid(src string) bool {
	_, err := safeParseFile(src)
	return err == nil
}

func FromGoja(p *gast.Program) (n *ir.Node, err error) {
	defer func() {
		if r := recover(); r != nil {
			if e, ok := r.(shapeErr); ok {
				n, err = nil, e
				return
			}
			panic(r)
		}
	}()
	out := ir.N(ir.Program, "")
	out.Kids = []*ir.Node{}
	for _, s := range p.Body {
		if _, empty := s.(*gast.EmptyStatement); empty {
			// goja turns `x\n;` into `x` + empty statement (it applies ASI at
			// the line break before looking at the `;`); the subset has no
			// empty statements, so they are dropped from lists.
			continue
		}
		out.Kids = append(out.Kids, gstmt(s))
	}
	return out, nil
}

func gblock(b *gast.BlockStatement) *ir.Node {
	out := ir.N(ir.Block, "")
	out.Kids = []*ir.Node{}
	for _, s := range b.List {
		if _, empty := s.(*gast.EmptyStatement); empty {
			continue
		}
		out.Kids = append(out.Kids, gstmt(s))
	}
	return out
}

func gbindingName(b *gast.Binding) string {
	id, ok := b.Target.(*gast.Identifier)
	if !ok {
		fail("goja: binding target %T outside subset", b.Target)
	}
	return string(id.Name)
}

func gfunc(f *gast.FunctionLiteral, k ir.Kind) *ir.Node {
	if f.Async || f.Generator {
		fail("goja: async/generator outside subset")
	}
	name := ""
	if f.Name != nil {
		name = string(f.Name.Name)
	}
	ps := []string{}
	if f.ParameterList.Rest != nil {
		fail("goja: rest parameter outside subset")
	}
	for _, b := range f.ParameterList.List {
		if b.Initializer != nil {
			fail("goja: default parameter outside subset")
		}
		ps = append(ps, gbindingName(b))
	}
	return &ir.Node{K: k, Op: name, Params: ps, Kids: []*ir.Node{gblock(f.Body)}}
}

func glet(d *gast.LexicalDeclaration) *ir.Node {
	if d.Token != gtoken.LET || len(d.List) != 1 {
		fail("goja: lexical declaration outside subset")
	}
	b := d.List[0]
	return ir.N(ir.Let, gbindingName(b), gopt(b.Initializer))
}

func gopt(e gast.Expression) *ir.Node {
	if e == nil {
		return nil
	}
	return gexpr(e)
}

func gstmt(s gast.Statement) *ir.Node {
	switch v := s.(type) {
	case *gast.LexicalDeclaration:
		return glet(v)
	case *gast.ReturnStatement:
		return ir.N(ir.Return, "", gopt(v.Argument))
	case *gast.ExpressionStatement:
		return ir.N(ir.ExprStmt, "", gexpr(v.Expression))
	case *gast.FunctionDeclaration:
		return gfunc(v.Function, ir.FuncDecl)
	case *gast.BlockStatement:
		return gblock(v)
	case *gast.IfStatement:
		n := ir.N(ir.If, "", gexpr(v.Test), gstmt(v.Consequent), nil)
		if v.Alternate != nil {
			n.Kids[2] = gstmt(v.Alternate)
		}
		return n
	case *gast.WhileStatement:
		return ir.N(ir.While, "", gexpr(v.Test), gstmt(v.Body))
	case *gast.ForStatement:
		n := ir.N(ir.For, "", nil, gopt(v.Test), gopt(v.Update), gstmt(v.Body))
		switch in := v.Initializer.(type) {
		case nil:
		case *gast.ForLoopInitializerExpression:
			n.Kids[0] = gexpr(in.Expression)
		case *gast.ForLoopInitializerLexicalDecl:
			n.Kids[0] = glet(&in.LexicalDeclaration)
		default:
			fail("goja: for initialiser %T outside subset", in)
		}
		return n
	}
	fail("goja: statement %T outside subset", s)
	return nil
}

var gBinOps = map[gtoken.Token]string{
	gtoken.LOGICAL_OR: "||", gtoken.LOGICAL_AND: "&&", gtoken.EQUAL: "==", gtoken.NOT_EQUAL: "!=",
	gtoken.LESS: "<", gtoken.GREATER: ">", gtoken.LESS_OR_EQUAL: "<=", gtoken.GREATER_OR_EQUAL: ">=",
	gtoken.PLUS: "+", gtoken.MINUS: "-", gtoken.MULTIPLY: "*", gtoken.SLASH: "/", gtoken.REMAINDER: "%",
}

func gexpr(e gast.Expression) *ir.Node {
	switch v := e.(type) {
	case *gast.Identifier:
		return ir.N(ir.Ident, string(v.Name))
	case *gast.NumberLiteral:
		return ir.N(ir.Num, v.Literal)
	case *gast.StringLiteral:
		lit := v.Literal
		if len(lit) >= 2 {
			lit = lit[1 : len(lit)-1]
		}
		return ir.StrNode(lit)
	case *gast.TemplateLiteral:
		if v.Tag != nil || len(v.Expressions) != 0 || len(v.Elements) != 1 {
			fail("goja: tagged/interpolated template outside subset")
		}
		return ir.N(ir.Tpl, v.Elements[0].Literal)
	case *gast.BooleanLiteral:
		return ir.N(ir.Bool, v.Literal)
	case *gast.NullLiteral:
		return ir.N(ir.Null, "")
	case *gast.UnaryExpression:
		var op string
		switch v.Operator {
		case gtoken.MINUS:
			op = "-"
		case gtoken.NOT:
			op = "!"
		case gtoken.INCREMENT:
			op = "++"
		case gtoken.DECREMENT:
			op = "--"
		default:
			fail("goja: unary operator %s outside subset", v.Operator)
		}
		if v.Postfix {
			return ir.N(ir.Postfix, op, gexpr(v.Operand))
		}
		return ir.N(ir.Unary, op, gexpr(v.Operand))
	case *gast.BinaryExpression:
		op, ok := gBinOps[v.Operator]
		if !ok {
			fail("goja: binary operator %s outside subset", v.Operator)
		}
		return ir.N(ir.Binary, op, gexpr(v.Left), gexpr(v.Right))
	case *gast.AssignExpression:
		var op string
		switch v.Operator {
		case gtoken.ASSIGN:
			op = "="
		case gtoken.PLUS:
			op = "+="
		case gtoken.MINUS:
			op = "-="
		default:
			fail("goja: assignment operator %s outside subset", v.Operator)
		}
		return ir.N(ir.Assign, op, gexpr(v.Left), gexpr(v.Right))
	case *gast.CallExpression:
		n := ir.N(ir.Call, "", gexpr(v.Callee))
		for _, a := range v.ArgumentList {
			n.Kids = append(n.Kids, gexpr(a))
		}
		return n
	case *gast.DotExpression:
		return ir.N(ir.Member, string(v.Identifier.Name), gexpr(v.Left))
	case *gast.BracketExpression:
		return ir.N(ir.Index, "", gexpr(v.Left), gexpr(v.Member))
	case *gast.ArrayLiteral:
		n := ir.N(ir.Array, "")
		for _, a := range v.Value {
			if a == nil {
				fail("goja: array hole outside subset")
			}
			n.Kids = append(n.Kids, gexpr(a))
		}
		return n
	case *gast.ObjectLiteral:
		n := ir.N(ir.Object, "")
		for _, p := range v.Value {
			kp, ok := p.(*gast.PropertyKeyed)
			if !ok || kp.Kind != gast.PropertyKindValue || kp.Computed {
				fail("goja: property form %T outside subset", p)
			}
			var key *ir.Node
			switch k := kp.Key.(type) {
			case *gast.StringLiteral:
				// goja represents identifier keys as string literals whose
				// Literal is the bare name.
				lit := k.Literal
				if len(lit) >= 2 && (lit[0] == '"' || lit[0] == '\'') {
					key = ir.StrNode(lit[1 : len(lit)-1])
				} else {
					key = ir.N(ir.Ident, lit)
				}
			case *gast.NumberLiteral:
				key = ir.N(ir.Num, k.Literal)
			case *gast.Identifier:
				key = ir.N(ir.Ident, string(k.Name))
			default:
				fail("goja: property key %T outside subset", kp.Key)
			}
			n.Kids = append(n.Kids, key, gexpr(kp.Value))
		}
		return n
	case *gast.FunctionLiteral:
		return gfunc(v, ir.Func)
	}
	fail("goja: expression %T outside subset", e)
	return nil
}

var _ = fmt.Sprint

// JSValidity reports whether the reference parser accepts the text; limited is
// true when it could not process the text at all (no verdict).
func JSValidity(src string) (valid bool, limited bool) {
	_, err := safeParseFile(src)
	if err != nil && errors.Is(err, ErrRefLimit) {
		return false, true
	}
	return err == nil, false
}
