// Package pratt is the harness's reference expression parser for C05: a
// plain precedence-climbing parser over a token list, parameterised by a
// table of operator roles and levels.  It knows nothing about xjs.
package pratt

import (
	"fmt"

	"verif/harness/ir"
)

type Role int

const (
	Operand     Role = iota
	Prefix           // operand parsed at the unary level
	InfixLeft        // left-associative binary operator
	AssignRight      // right-associative, value parsed at the lowest level
	Postfix
	LParen
	RParen
	LBracket
	RBracket
	Dot
	Comma
)

// Levels, mirroring the documented binding levels 1..13.
const (
	Lowest     = 1
	Assignment = 2
	Unary      = 9
	PostfixLvl = 10
	Call       = 11
	Member     = 12
)

type Tok struct {
	Text   string
	Role   Role // role in operand position is decided by the parser state for tokens that have two roles
	Level  int  // binding level in operator position
	Custom bool // registered (non built-in) operator
	// a token may be both a prefix operator and an infix/postfix operator (e.g. "-", "++", "(" , "[")
	AlsoPrefix bool
	// the prefix role (of a built-in infix token) was registered by the test: its node is a custom node
	CustomPrefix bool
}

type parser struct {
	toks []Tok
	pos  int
}

type Error struct{ Msg string }

func (e *Error) Error() string { return e.Msg }

func (p *parser) peek() *Tok {
	if p.pos < len(p.toks) {
		return &p.toks[p.pos]
	}
	return nil
}

func (p *parser) fail(f string, a ...interface{}) { panic(&Error{fmt.Sprintf(f, a...)}) }

// Parse parses the whole token list as one expression.
func Parse(toks []Tok) (n *ir.Node, err error) {
	defer func() {
		if r := recover(); r != nil {
			if e, ok := r.(*Error); ok {
				n, err = nil, e
				return
			}
			panic(r)
		}
	}()
	p := &parser{toks: toks}
	n = p.expr(Lowest)
	if p.pos != len(toks) {
		p.fail("unconsumed token %q at %d", toks[p.pos].Text, p.pos)
	}
	return n, nil
}

func (p *parser) prefix() *ir.Node {
	t := p.peek()
	if t == nil {
		p.fail("operand expected at end")
	}
	p.pos++
	switch {
	case t.Role == Operand:
		return ir.N(ir.Ident, t.Text)
	case t.Role == Prefix || t.AlsoPrefix && (t.Role == InfixLeft || t.Role == Postfix):
		operand := p.expr(Unary)
		if t.Custom || t.CustomPrefix {
			return ir.N(ir.Custom, "pre:"+t.Text, operand)
		}
		return ir.N(ir.Unary, t.Text, operand)
	case t.Role == LParen:
		e := p.expr(Lowest)
		if c := p.peek(); c == nil || c.Role != RParen {
			p.fail("`)` expected")
		}
		p.pos++
		return e
	}
	p.fail("unexpected %q in operand position", t.Text)
	return nil
}

// expr parses an expression made of operators binding tighter than min.
func (p *parser) expr(min int) *ir.Node {
	left := p.prefix()
	for {
		t := p.peek()
		if t == nil {
			return left
		}
		var level int
		switch t.Role {
		case InfixLeft, AssignRight, Postfix:
			level = t.Level
		case LParen:
			level = Call
		case Dot, LBracket:
			level = Member
		default:
			return left
		}
		if level <= min {
			return left
		}
		p.pos++
		switch t.Role {
		case InfixLeft:
			right := p.expr(level)
			if t.Custom {
				left = ir.N(ir.Custom, "in:"+t.Text, left, right)
			} else {
				left = ir.N(ir.Binary, t.Text, left, right)
			}
		case AssignRight:
			left = ir.N(ir.Assign, t.Text, left, p.expr(Lowest))
		case Postfix:
			if t.Custom {
				left = ir.N(ir.Custom, "post:"+t.Text, left)
			} else {
				left = ir.N(ir.Postfix, t.Text, left)
			}
		case LParen:
			call := ir.N(ir.Call, "", left)
			if c := p.peek(); c != nil && c.Role == RParen {
				p.pos++
			} else {
				for {
					call.Kids = append(call.Kids, p.expr(Lowest))
					c := p.peek()
					if c != nil && c.Role == Comma {
						p.pos++
						continue
					}
					if c == nil || c.Role != RParen {
						p.fail("`)` expected after arguments")
					}
					p.pos++
					break
				}
			}
			left = call
		case Dot:
			// the property name is parsed as an expression at member level
			prop := p.expr(Member)
			if prop.K == ir.Ident {
				left = ir.N(ir.Member, prop.Op, left)
			} else {
				left = ir.N(ir.Custom, "member-of-non-identifier", left, prop)
			}
		case LBracket:
			idx := p.expr(Lowest)
			if c := p.peek(); c == nil || c.Role != RBracket {
				p.fail("`]` expected")
			}
			p.pos++
			left = ir.N(ir.Index, "", left, idx)
		}
	}
}
