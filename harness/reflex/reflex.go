// Package reflex is the harness's reference knowledge about lexeme extents
// and line/column arithmetic, independent of xjs's lexer.
package reflex

// LineTable maps (line, column) to byte offsets under the "\n" convention.
type LineTable struct {
	starts []int
	n      int
}

func NewLineTable(src []byte) *LineTable {
	lt := &LineTable{starts: []int{0}, n: len(src)}
	for i, c := range src {
		if c == '\n' {
			lt.starts = append(lt.starts, i+1)
		}
	}
	return lt
}

// Offset returns the byte offset of (line, col), or -1 when the position does
// not denote a byte of that line (or the end-of-line / end-of-input slot).
func (lt *LineTable) Offset(line, col int) int {
	if line < 0 || line >= len(lt.starts) || col < 0 {
		return -1
	}
	off := lt.starts[line] + col
	end := lt.n
	if line+1 < len(lt.starts) {
		end = lt.starts[line+1] - 1 // position of the '\n'
	}
	if off > end {
		// one past a line's '\n' is the next line's column 0, not this line
		return -1
	}
	return off
}

// Pos is the inverse of Offset.
func (lt *LineTable) Pos(off int) (line, col int) {
	lo, hi := 0, len(lt.starts)-1
	for lo < hi {
		mid := (lo + hi + 1) / 2
		if lt.starts[mid] <= off {
			lo = mid
		} else {
			hi = mid - 1
		}
	}
	return lo, off - lt.starts[lo]
}

func IsSpace(c byte) bool { return c == ' ' || c == '\t' || c == '\n' || c == '\r' }

func IsIdentStart(c byte) bool {
	return c >= 'a' && c <= 'z' || c >= 'A' && c <= 'Z' || c == '_' || c == '$'
}

func IsDigit(c byte) bool { return c >= '0' && c <= '9' }

func IsIdentPart(c byte) bool { return IsIdentStart(c) || IsDigit(c) }

// TriviaOnly reports whether b consists only of white space and complete
// `//` comments (a comment runs to the next line terminator - LF, CR LF or a
// lone CR - or to the end of b, which is acceptable only if atEnd, i.e. b
// reaches the end of the source).  hasNewline: b contains a line terminator.
func TriviaOnly(b []byte, atEnd bool) (ok bool, hasNewline bool) {
	loneCR := func(i int) bool { return b[i] == '\r' && !(i+1 < len(b) && b[i+1] == '\n') }
	i := 0
	for i < len(b) {
		c := b[i]
		switch {
		case IsSpace(c):
			if c == '\n' || loneCR(i) {
				hasNewline = true
			}
			i++
		case c == '/' && i+1 < len(b) && b[i+1] == '/':
			i += 2
			for i < len(b) && b[i] != '\n' && !loneCR(i) {
				i++
			}
			if i >= len(b) {
				return atEnd, hasNewline
			}
		default:
			return false, hasNewline
		}
	}
	return true, hasNewline
}

// StringEnd returns the exclusive end offset of the quoted literal starting
// at src[start] (a quote character): backslash pairs are skipped; the literal
// ends after the matching quote or at the end of the input.  terminated tells
// which.
func StringEnd(src []byte, start int) (end int, terminated bool) {
	q := src[start]
	i := start + 1
	for i < len(src) {
		c := src[i]
		if c == '\\' {
			i += 2
			continue
		}
		if c == q {
			return i + 1, true
		}
		i++
	}
	return len(src), false
}

var Keywords = map[string]bool{"function": true, "let": true, "if": true, "else": true, "while": true, "for": true, "return": true, "true": true, "false": true, "null": true}

// Operators lists every punctuation lexeme of the subset, longest first.
var Operators = []string{"==", "!=", "<=", ">=", "&&", "||", "++", "--", "+=", "-=", "=", "!", "<", ">", "+", "-", "*", "/", "%", ",", ";", ":", ".", "(", ")", "{", "}", "[", "]"}

// OperatorAt returns the operator lexeme at src[i:] by maximal munch ("" if none).
func OperatorAt(src []byte, i int) string {
	for _, op := range Operators {
		if i+len(op) <= len(src) && string(src[i:i+len(op)]) == op {
			return op
		}
	}
	return ""
}

// LiteralInterior scans JavaScript-subset text and reports, per line, whether
// the line's first byte lies inside a string or backtick literal (so that its
// leading white space is literal content, not indentation).
func LiteralInterior(src string) []bool {
	lines := 1
	for i := 0; i < len(src); i++ {
		if src[i] == '\n' {
			lines++
		}
	}
	inside := make([]bool, lines)
	line := 0
	i := 0
	b := []byte(src)
	for i < len(b) {
		c := b[i]
		switch {
		case c == '\n':
			line++
			i++
		case c == '/' && i+1 < len(b) && b[i+1] == '/':
			for i < len(b) && b[i] != '\n' {
				i++
			}
		case c == '"' || c == '\'' || c == '`':
			end, _ := StringEnd(b, i)
			for k := i; k < end; k++ {
				if b[k] == '\n' {
					line++
					if k+1 < end {
						inside[line] = true
					}
				}
			}
			i = end
		default:
			i++
		}
	}
	return inside
}
