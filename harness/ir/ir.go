// Package ir is the harness's own description of the xjs/JavaScript subset.
// It is independent of xjs's ast package: generators build ir trees, the
// unparser (package layout) renders them, and package shape converts both the
// xjs AST and goja's AST into ir trees for comparison.
package ir

import (
	"fmt"
	"hash/fnv"
	"math"
	"math/big"
	"strconv"
	"strings"
)

type Kind int

const (
	// expressions
	Ident Kind = iota
	Num
	Str
	Tpl
	Bool
	Null
	Unary
	Postfix
	Binary
	Assign
	Call
	Member
	Index
	Array
	Object
	Func
	Custom // operator node created by a test plugin (C05)
	// statements
	Let
	FuncDecl
	Return
	If
	While
	For
	Block
	ExprStmt
	Program
)

var kindNames = [...]string{"id", "num", "str", "tpl", "bool", "null", "un", "post", "bin", "asg", "call", "mem", "idx", "arr", "obj", "fn", "custom",
	"let", "fdecl", "ret", "if", "while", "for", "block", "expr", "prog"}

func (k Kind) String() string { return kindNames[k] }

// Piece is one source-level element of a string literal: either a raw
// character sequence or one escape spelling, together with the UTF-16 code
// units it denotes in JavaScript.
type Piece struct {
	Src   string   `json:"s"`
	Units []uint16 `json:"u"`
}

// Node is a generic tree node.  Children layout per kind:
//
//	Unary/Postfix: Kids[0]; Binary: L,R; Assign: target,value (Op "=","+=","-=")
//	Call: callee,args...; Member: object (Op=property); Index: object,index
//	Array: elements; Object: key,value,key,value... (keys Ident|Str|Num)
//	Func/FuncDecl: Op=name, Params, Kids[0]=Block
//	Let: Op=name, Kids[0]=init|nil; Return: Kids[0]=value|nil
//	If: cond,then,else|nil; While: cond,body; For: init|nil,cond|nil,update|nil,body
//	Block/Program: statements; ExprStmt: Kids[0]
type Node struct {
	K      Kind     `json:"k"`
	Op     string   `json:"op,omitempty"`
	Kids   []*Node  `json:"kids,omitempty"`
	Params []string `json:"params,omitempty"`
	// string literals, generator side
	Pieces []Piece `json:"pieces,omitempty"`
	Quote  string  `json:"quote,omitempty"`
	// string literals, shape side: Opaque means "some string whose spelling is
	// not a plain run of simple characters" and compares equal to any string.
	Opaque bool `json:"opaque,omitempty"`
}

func N(k Kind, op string, kids ...*Node) *Node { return &Node{K: k, Op: op, Kids: kids} }

func IsStmt(k Kind) bool { return k >= Let }

// NumKey: a key that is equal for two spellings of the same numeric literal.
func NumKey(text string) string {
	t := strings.ToLower(text)
	if len(t) > 1 && t[0] == '0' && (t[1] == 'x' || t[1] == 'b' || t[1] == 'o') {
		if v, ok := new(big.Int).SetString(t[2:], map[byte]int{'x': 16, 'b': 2, 'o': 8}[t[1]]); ok {
			return "i" + v.String()
		}
		return t
	}
	if len(t) > 1 && t[0] == '0' && strings.Trim(t, "01234567") == "" {
		if v, ok := new(big.Int).SetString(t[1:], 8); ok { // legacy octal
			return "i" + v.String()
		}
	}
	if f, err := strconv.ParseFloat(t, 64); err == nil {
		if f == math.Trunc(f) && math.Abs(f) < 1e15 {
			return "i" + strconv.FormatFloat(f, 'f', 0, 64)
		}
		return "f" + strconv.FormatUint(math.Float64bits(f), 16)
	}
	return t
}

// SimpleStr reports whether s consists only of characters whose spelling in a
// string literal is unambiguous (no escapes, quotes, or non-ASCII).
func SimpleStr(s string) bool {
	for i := 0; i < len(s); i++ {
		c := s[i]
		if !(c >= 'a' && c <= 'z' || c >= 'A' && c <= 'Z' || c >= '0' && c <= '9' || c == '_' || c == ' ' || c == '-' || c == '#') {
			return false
		}
	}
	return true
}

// StrNode builds a shape-side string node from a source spelling (between the
// quotes).
func StrNode(spelling string) *Node {
	if SimpleStr(spelling) {
		return &Node{K: Str, Op: spelling}
	}
	return &Node{K: Str, Opaque: true}
}

// Spelling returns the source text between the quotes for a generator-side
// string node.
func (n *Node) Spelling() string {
	var b strings.Builder
	for _, p := range n.Pieces {
		b.WriteString(p.Src)
	}
	return b.String()
}

// Units returns the UTF-16 code units a generator-side string denotes.
func (n *Node) Units() []uint16 {
	var u []uint16
	for _, p := range n.Pieces {
		u = append(u, p.Units...)
	}
	return u
}

func strForm(n *Node) (string, bool) {
	if n.Pieces != nil || n.Quote != "" {
		sp := n.Spelling()
		if SimpleStr(sp) {
			return sp, false
		}
		return "", true
	}
	if n.Opaque {
		return "", true
	}
	return n.Op, false
}

// Equal compares two trees structurally.  String literals compare by content
// when both are simple, and as wildcards otherwise (literal values are C07's
// business).  Template strings compare as wildcards unless both simple.
func Equal(a, b *Node) bool {
	return Diff(a, b) == ""
}

// Diff returns "" when the trees are equal, else a short description of the
// first difference.
func Diff(a, b *Node) string {
	return diff(a, b, "")
}

func diff(a, b *Node, path string) string {
	if a == nil || b == nil {
		if a == nil && b == nil {
			return ""
		}
		return fmt.Sprintf("%s: nil vs non-nil (%s | %s)", path, Sexp(a), Sexp(b))
	}
	if a.K != b.K {
		return fmt.Sprintf("%s: kind %s vs %s (%s | %s)", path, a.K, b.K, Sexp(a), Sexp(b))
	}
	switch a.K {
	case Str:
		sa, oa := strForm(a)
		sb, ob := strForm(b)
		if !oa && !ob && sa != sb {
			return fmt.Sprintf("%s: string %q vs %q", path, sa, sb)
		}
		return ""
	case Tpl:
		if SimpleStr(a.Op) && SimpleStr(b.Op) && a.Op != b.Op {
			return fmt.Sprintf("%s: template %q vs %q", path, a.Op, b.Op)
		}
		return ""
	}
	if a.K == Num && a.Op != b.Op && NumKey(a.Op) == NumKey(b.Op) {
		// the same number in another spelling (`0XFF` / `0xff`, `1E+3` / `1e3`)
	} else if a.Op != b.Op {
		return fmt.Sprintf("%s: %s op %q vs %q", path, a.K, a.Op, b.Op)
	}
	if len(a.Params) != len(b.Params) {
		return fmt.Sprintf("%s: %s params %v vs %v", path, a.K, a.Params, b.Params)
	}
	for i := range a.Params {
		if a.Params[i] != b.Params[i] {
			return fmt.Sprintf("%s: %s params %v vs %v", path, a.K, a.Params, b.Params)
		}
	}
	if len(a.Kids) != len(b.Kids) {
		return fmt.Sprintf("%s: %s has %d vs %d children (%s | %s)", path, a.K, len(a.Kids), len(b.Kids), Sexp(a), Sexp(b))
	}
	for i := range a.Kids {
		if d := diff(a.Kids[i], b.Kids[i], fmt.Sprintf("%s/%s.%d", path, a.K, i)); d != "" {
			return d
		}
	}
	return ""
}

// Sexp renders the canonical s-expression (used for hashing and messages).
func Sexp(n *Node) string {
	var b strings.Builder
	sexp(&b, n)
	return b.String()
}

func sexp(b *strings.Builder, n *Node) {
	if n == nil {
		b.WriteString("_")
		return
	}
	b.WriteByte('(')
	b.WriteString(n.K.String())
	switch n.K {
	case Str:
		s, o := strForm(n)
		if o {
			b.WriteString(" ?")
		} else {
			fmt.Fprintf(b, " %q", s)
		}
	case Tpl:
		if SimpleStr(n.Op) {
			fmt.Fprintf(b, " %q", n.Op)
		} else {
			b.WriteString(" ?")
		}
	default:
		if n.Op != "" {
			b.WriteByte(' ')
			b.WriteString(n.Op)
		}
	}
	if n.Params != nil || n.K == Func || n.K == FuncDecl {
		b.WriteString(" [")
		b.WriteString(strings.Join(n.Params, ","))
		b.WriteString("]")
	}
	for _, k := range n.Kids {
		b.WriteByte(' ')
		sexp(b, k)
	}
	b.WriteByte(')')
}

func Hash(s string) uint64 {
	h := fnv.New64a()
	h.Write([]byte(s))
	return h.Sum64()
}

// Walk visits every node in pre-order.
func Walk(n *Node, f func(*Node)) {
	if n == nil {
		return
	}
	f(n)
	for _, k := range n.Kids {
		Walk(k, f)
	}
}

// Count returns the number of nodes.
func Count(n *Node) int {
	c := 0
	Walk(n, func(*Node) { c++ })
	return c
}

// Depth returns the maximum nesting depth.
func Depth(n *Node) int {
	if n == nil {
		return 0
	}
	d := 0
	for _, k := range n.Kids {
		if x := Depth(k); x > d {
			d = x
		}
	}
	return d + 1
}

// Clone returns a deep copy.
func Clone(n *Node) *Node {
	if n == nil {
		return nil
	}
	c := *n
	c.Kids = make([]*Node, len(n.Kids))
	for i, k := range n.Kids {
		c.Kids[i] = Clone(k)
	}
	c.Params = append([]string(nil), n.Params...)
	c.Pieces = append([]Piece(nil), n.Pieces...)
	return &c
}

func isRel(n *ir_Node) bool {
	return n != nil && n.K == Binary && (n.Op == "<" || n.Op == ">" || n.Op == "<=" || n.Op == ">=")
}

type ir_Node = Node

// NormRel returns a copy in which every nest of relational operators is
// re-associated to the left.  goja's parser (the reference JavaScript parser)
// parses `a<b<c` right-associatively, contrary to ECMAScript; comparisons that
// involve goja's tree are therefore made modulo relational associativity.
func NormRel(n *Node) *Node {
	if n == nil {
		return nil
	}
	if isRel(n) {
		var operands []*Node
		var ops []string
		var flat func(x *Node)
		flat = func(x *Node) {
			if isRel(x) {
				flat(x.Kids[0])
				ops = append(ops, x.Op)
				flat(x.Kids[1])
			} else {
				operands = append(operands, NormRel(x))
			}
		}
		flat(n)
		acc := operands[0]
		for i, op := range ops {
			acc = N(Binary, op, acc, operands[i+1])
		}
		return acc
	}
	c := *n
	c.Kids = make([]*Node, len(n.Kids))
	for i, k := range n.Kids {
		c.Kids[i] = NormRel(k)
	}
	return &c
}

func (k Kind) MarshalJSON() ([]byte, error) { return []byte(`"` + k.String() + `"`), nil }

func (k *Kind) UnmarshalJSON(b []byte) error {
	s := strings.Trim(string(b), `"`)
	for i, n := range kindNames {
		if n == s {
			*k = Kind(i)
			return nil
		}
	}
	return fmt.Errorf("unknown node kind %q", s)
}
