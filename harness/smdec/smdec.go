// Package smdec is a Source Map v3 "mappings" decoder written from the
// specification text, independent of xjs's encoder.
package smdec

import (
	"fmt"
	"strings"
)

type Seg struct {
	GenLine, GenCol int
	Src             int
	SrcLine, SrcCol int
	Name            int
	HasName         bool
	Fields          int
}

const b64 = "ABCDEFGHIJKLMNOPQRSTUVWXYZabcdefghijklmnopqrstuvwxyz0123456789+/"

// Decode parses a mappings string.  It rejects illegal Base64 digits,
// truncated VLQ values (continuation bit on the last digit), empty segments
// and segments whose field count is not 1, 4 or 5.
func Decode(mappings string) ([]Seg, error) {
	var out []Seg
	if mappings == "" {
		return out, nil
	}
	src, srcLine, srcCol, name := 0, 0, 0, 0
	for li, line := range strings.Split(mappings, ";") {
		genCol := 0
		if line == "" {
			continue
		}
		for si, seg := range strings.Split(line, ",") {
			if seg == "" {
				return nil, fmt.Errorf("line %d: empty segment %d", li, si)
			}
			vals, err := decodeVLQs(seg)
			if err != nil {
				return nil, fmt.Errorf("line %d segment %d %q: %v", li, si, seg, err)
			}
			if len(vals) != 1 && len(vals) != 4 && len(vals) != 5 {
				return nil, fmt.Errorf("line %d segment %d %q: %d fields", li, si, seg, len(vals))
			}
			genCol += vals[0]
			s := Seg{GenLine: li, GenCol: genCol, Fields: len(vals)}
			if len(vals) >= 4 {
				src += vals[1]
				srcLine += vals[2]
				srcCol += vals[3]
				s.Src, s.SrcLine, s.SrcCol = src, srcLine, srcCol
			}
			if len(vals) == 5 {
				name += vals[4]
				s.Name, s.HasName = name, true
			}
			out = append(out, s)
		}
	}
	return out, nil
}

func decodeVLQs(s string) ([]int, error) {
	var vals []int
	shift, acc := uint(0), 0
	pending := false
	for i := 0; i < len(s); i++ {
		d := strings.IndexByte(b64, s[i])
		if d < 0 {
			return nil, fmt.Errorf("illegal Base64 digit %q", s[i])
		}
		if shift > 60 {
			return nil, fmt.Errorf("VLQ too long")
		}
		acc |= (d & 0x1F) << shift
		shift += 5
		if d&0x20 != 0 {
			pending = true
			continue
		}
		pending = false
		v := acc >> 1
		if acc&1 == 1 {
			v = -v
		}
		vals = append(vals, v)
		shift, acc = 0, 0
	}
	if pending {
		return nil, fmt.Errorf("truncated VLQ (continuation bit on last digit)")
	}
	return vals, nil
}
