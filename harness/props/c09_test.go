package props

import (
	"fmt"
	"testing"

	"github.com/xjslang/xjs/sourcemap"
	"pgregory.net/rapid"

	"verif/harness/evid"
	"verif/harness/gen"
	"verif/harness/smdec"
)

// C09 — mapping encoding conforms to Source Map v3.

type c09Op struct {
	Op   string `json:"op"` // map | named | col | str | line | emit
	Line int    `json:"line,omitempty"`
	Col  int    `json:"col,omitempty"`
	Name string `json:"name,omitempty"`
	N    int    `json:"n,omitempty"`
	S    string `json:"s,omitempty"`
}

type c09Case struct {
	Ops []c09Op `json:"ops"`
}

type c09Mapping struct {
	genLine, genCol, srcLine, srcCol int
	name                             string
	hasName                          bool
}

func c09Check(c c09Case, rec *evid.Recorder) *Fail {
	rec.Eval()
	m := sourcemap.New()
	// reference model
	genLine, genCol := 0, 0
	lastCR := false // the text advanced over so far ends in a CR
	var maps []c09Mapping
	var names []string
	nameIdx := map[string]int{}
	verify := func(step int) *Fail {
		sm := m.SourceMap()
		if sm == nil {
			return failf("step %d: SourceMap() returned nil", step)
		}
		if sm.Version != 3 {
			return failf("step %d: version %d", step, sm.Version)
		}
		segs, err := smdec.Decode(sm.Mappings)
		if err != nil {
			return failf("step %d: mappings %q do not decode: %v", step, sm.Mappings, err)
		}
		if len(segs) != len(maps) {
			return failf("step %d: %d segments decoded from %q, %d mappings recorded", step, len(segs), sm.Mappings, len(maps))
		}
		for i, s := range segs {
			w := maps[i]
			if s.Fields < 4 {
				return failf("step %d: segment %d has %d fields (no source position)", step, i, s.Fields)
			}
			if s.GenLine != w.genLine || s.GenCol != w.genCol || s.SrcLine != w.srcLine || s.SrcCol != w.srcCol || s.Src != 0 {
				return failf("step %d: segment %d decodes to gen %d:%d -> src[%d] %d:%d, recorded gen %d:%d -> src %d:%d\nmappings %q", step, i, s.GenLine, s.GenCol, s.Src, s.SrcLine, s.SrcCol, w.genLine, w.genCol, w.srcLine, w.srcCol, sm.Mappings)
			}
			if s.HasName != w.hasName {
				return failf("step %d: segment %d name presence %v, recorded %v\nmappings %q", step, i, s.HasName, w.hasName, sm.Mappings)
			}
			if s.HasName {
				if s.Name < 0 || s.Name >= len(sm.Names) || sm.Names[s.Name] != w.name {
					return failf("step %d: segment %d name index %d does not resolve to %q (names %q)", step, i, s.Name, w.name, sm.Names)
				}
			}
		}
		if len(sm.Names) != len(names) {
			return failf("step %d: names %q, want %q (first-seen order, deduplicated)", step, sm.Names, names)
		}
		for i := range names {
			if sm.Names[i] != names[i] {
				return failf("step %d: names %q, want %q (first-seen order, deduplicated)", step, sm.Names, names)
			}
		}
		return nil
	}
	negDelta, namedAfterUnnamed := false, false
	for i, op := range c.Ops {
		switch op.Op {
		case "map":
			m.AddMapping(op.Line, op.Col)
			if n := len(maps); n > 0 && (op.Line < maps[n-1].srcLine || op.Col < maps[n-1].srcCol) {
				negDelta = true
			}
			maps = append(maps, c09Mapping{genLine, genCol, op.Line, op.Col, "", false})
		case "named":
			m.AddNamedMapping(op.Line, op.Col, op.Name)
			if n := len(maps); n > 0 && !maps[n-1].hasName {
				namedAfterUnnamed = true
			}
			if n := len(maps); n > 0 && (op.Line < maps[n-1].srcLine || op.Col < maps[n-1].srcCol) {
				negDelta = true
			}
			if _, ok := nameIdx[op.Name]; !ok {
				nameIdx[op.Name] = len(names)
				names = append(names, op.Name)
			}
			maps = append(maps, c09Mapping{genLine, genCol, op.Line, op.Col, op.Name, true})
		case "col":
			m.AdvanceColumn(op.N)
			genCol += op.N
			lastCR = false
		case "line":
			m.AdvanceLine()
			genLine++
			genCol = 0
			lastCR = false
		case "str":
			m.AdvanceString(op.S)
			// Line breaks are counted per call: the repository's own test
			// (TestSourceMapperAdvanceStringMixedLineEndings) pins "\r" at the end
			// of one call followed by "\n" at the start of the next as TWO breaks,
			// so pairing across calls would demand more than the property states.
			lastCR = false
			for k := 0; k < len(op.S); k++ {
				ch := op.S[k]
				switch {
				case ch == '\n' && lastCR:
					// second half of a \r\n pair (possibly split over two calls): one break
					lastCR = false
				case ch == '\n' || ch == '\r':
					genLine++
					genCol = 0
					lastCR = ch == '\r'
				default:
					genCol++
					lastCR = false
				}
			}
		case "fill":
			// record mappings until exactly op.N have been recorded in total (block
			// sizes, table growth steps), then look at the result
			for k := 0; len(maps) < op.N; k++ {
				if k%7 == 6 {
					m.AdvanceLine()
					genLine++
					genCol = 0
				} else {
					m.AdvanceColumn(1 + k%3)
					genCol += 1 + k%3
				}
				if k%4 == 1 {
					name := fmt.Sprintf("f%d", k%11)
					m.AddNamedMapping(k%13, k%29, name)
					if _, ok := nameIdx[name]; !ok {
						nameIdx[name] = len(names)
						names = append(names, name)
					}
					maps = append(maps, c09Mapping{genLine, genCol, k % 13, k % 29, name, true})
				} else {
					m.AddMapping(k%13, k%29)
					maps = append(maps, c09Mapping{genLine, genCol, k % 13, k % 29, "", false})
				}
			}
			lastCR = false
			if f := verify(i); f != nil {
				return f
			}
		case "emit":
			if f := verify(i); f != nil {
				return f
			}
		default:
			return failf("bad op %q", op.Op).tag("harness-selfcheck")
		}
	}
	if f := verify(len(c.Ops)); f != nil {
		return f
	}
	lines := map[int]bool{}
	for _, w := range maps {
		lines[w.genLine] = true
	}
	if len(maps) >= 3 && len(lines) >= 2 && namedAfterUnnamed && negDelta {
		rec.NonTrivial(fmt.Sprintf("%v", c.Ops))
	}
	rec.Sample(len(c.Ops), c)
	return nil
}

var c09Names = []string{"a", "b", "foo", "x", "", "ünï", "a b", "constructor", "__proto__", "toString"}

func c09Gen(t *rapid.T, rec *evid.Recorder) c09Case {
	r := gen.R{T: t}
	n := r.Intn(60, "nops")
	// one history in six is long and draws its names from a large pool, most of
	// them new, some seen before (tables that change representation with size)
	pool := 0
	if r.Intn(6, "long") == 0 {
		n = 60 + r.Intn(400, "nopslong")
		pool = []int{20, 33, 40, 70, 130, 300}[r.Intn(6, "pool")]
		rec.Class("history:long-many-names")
	}
	var ops []c09Op
	var strs []string
	pos := func(label string) int {
		switch r.Pick(label+"k", 6, 2, 1, 1) {
		case 0:
			return r.Intn(40, label)
		case 1:
			return r.Intn(5000, label)
		case 2:
			return rapid.IntRange(0, 1<<31-1).Draw(t, label)
		default:
			k := r.Intn(31, label+"pow")
			return (1 << uint(k)) - 1 + r.Intn(3, label+"off")
		}
	}
	for i := 0; i < n; i++ {
		switch r.Pick("op", 5, 5, 3, 4, 2, 1) {
		case 0:
			ops = append(ops, c09Op{Op: "map", Line: pos("line"), Col: pos("col")})
		case 1:
			name := c09Names[r.Intn(len(c09Names), "name")]
			if r.Intn(8, "rndname") == 0 {
				name = rapid.StringN(0, 6, 12).Draw(t, "namestr")
			}
			if pool > 0 && r.Intn(10, "poolname") > 0 {
				name = fmt.Sprintf("n%d", r.Intn(pool, "poolidx"))
			}
			ops = append(ops, c09Op{Op: "named", Line: pos("line"), Col: pos("col"), Name: name})
		case 2:
			ops = append(ops, c09Op{Op: "col", N: r.Intn(30, "n")})
		case 3:
			var s string
			for k, m := 0, 1+r.Intn(5, "npieces"); k < m; k++ {
				switch r.Pick("piece", 5, 2, 2, 2, 1) {
				case 0:
					s += "abc;{} x=1"[:1+r.Intn(9, "len")]
				case 1:
					s += "\n"
				case 2:
					s += "\r\n"
				case 3:
					s += "\r"
				default:
					// non-ASCII text is always followed by a line break: the
					// property does not fix the column unit
					s += "é中😀" + []string{"\n", "\r\n", "\r"}[r.Intn(3, "nl")]
				}
			}
			if len(strs) > 0 && r.Intn(4, "again") == 0 {
				// the same text once more, usually from another column
				s = strs[r.Intn(len(strs), "which")]
				rec.Class("op:str-repeated")
			}
			strs = append(strs, s)
			ops = append(ops, c09Op{Op: "str", S: s})
		case 4:
			ops = append(ops, c09Op{Op: "line"})
		default:
			ops = append(ops, c09Op{Op: "emit"})
		}
	}
	if pool > 0 && r.Intn(3, "fill") == 0 {
		// bring the number of recorded mappings to a round figure, look, go on
		for k, m := 0, 1+r.Intn(2, "nfill"); k < m; k++ {
			target := []int{255, 256, 257, 1023, 1024, 2047, 2048, 2049, 4096, 8192}[r.Intn(10, "filltarget")]
			ops = append(ops, c09Op{Op: "fill", N: target}, c09Op{Op: "map", Line: r.Intn(9, "l"), Col: r.Intn(9, "c")}, c09Op{Op: "emit"})
		}
	}
	for _, o := range ops {
		rec.Class("op:" + o.Op)
	}
	return c09Case{Ops: ops}
}

// exhaustive VLQ range through the public API: one mapping whose source line
// (and, negated through a second mapping, its delta) is n.
func c09Exhaustive(rec *evid.Recorder, report func(c09Case)) {
	if sh, _ := shard(); sh != 0 {
		return
	}
	check := func(n int) *Fail {
		// positive value as source line; negative delta by going n -> 0
		m := sourcemap.New()
		m.AddMapping(n, n)
		m.AddMapping(0, 0)
		segs, err := smdec.Decode(m.SourceMap().Mappings)
		rec.Eval()
		if err != nil || len(segs) != 2 || segs[0].SrcLine != n || segs[0].SrcCol != n || segs[1].SrcLine != 0 || segs[1].SrcCol != 0 {
			return failf("VLQ round trip fails for %d / -%d: mappings %q decode to %+v (%v)", n, n, m.SourceMap().Mappings, segs, err)
		}
		return nil
	}
	limit := 1 << 20
	for n := 0; n <= limit; n++ {
		if f := check(n); f != nil {
			report(c09Case{Ops: []c09Op{{Op: "map", Line: n, Col: n}, {Op: "map", Line: 0, Col: 0}}})
			return
		}
	}
	rec.Exhaustive("every VLQ value in [-2^20, 2^20] as a source line/column delta")
	for k := uint(0); k <= 31; k++ {
		for _, d := range []int{-1, 0, 1} {
			n := (1 << k) + d
			if n < 0 || n > 1<<31 {
				continue
			}
			if f := check(n); f != nil {
				report(c09Case{Ops: []c09Op{{Op: "map", Line: n, Col: n}, {Op: "map", Line: 0, Col: 0}}})
				return
			}
		}
	}
	rec.NonTrivial("vlq-range")
}

var c09Witnesses = []c09Case{
	{Ops: []c09Op{{Op: "str", S: "a\r"}, {Op: "str", S: "\nb"}, {Op: "map", Line: 1, Col: 0}}},
	{Ops: []c09Op{{Op: "str", S: "a\r\nb\rc\nd"}, {Op: "map", Line: 1, Col: 0}, {Op: "str", S: "\r\n\r\n"}, {Op: "map", Line: 2, Col: 0}}},
	{Ops: []c09Op{{Op: "map"}, {Op: "named", Name: "a"}, {Op: "map"}, {Op: "named", Name: "b"}, {Op: "named", Name: "a"}}},
	{Ops: []c09Op{{Op: "line"}, {Op: "line"}, {Op: "map", Line: 5, Col: 7}, {Op: "col", N: 3}, {Op: "map", Line: 2, Col: 1}, {Op: "emit"}, {Op: "line"}, {Op: "map", Line: 0, Col: 0}}},
}

func TestC09(t *testing.T) {
	run(t, &prop[c09Case]{ID: "C09", Gen: c09Gen, Check: c09Check, Exhaustive: c09Exhaustive, Witnesses: c09Witnesses})
}
