package props

import (
	"fmt"
	"hash/fnv"
	"strings"
	"sync"

	"github.com/xjslang/xjs/ast"
	"github.com/xjslang/xjs/compiler"
	"github.com/xjslang/xjs/lexer"
	"github.com/xjslang/xjs/parser"
	"github.com/xjslang/xjs/token"

	"verif/harness/ir"
	"verif/harness/shape"
)

type Mode struct {
	Tolerant bool `json:"tolerant,omitempty"`
	Smart    bool `json:"smart,omitempty"`
}

var allModes = []Mode{{}, {Tolerant: true}, {Smart: true}, {Tolerant: true, Smart: true}}

// newParser builds a parser the way the property's checks need it - and, for
// half of the inputs (chosen by a hash of the text, so that a replay does the
// same), the way a larger application would: the lexer builder has already been
// used by another parser builder that is configured the other way round, and
// the modes are set with the chained call style instead of the statement style.
// None of this may make a difference.
func newParser(src string, m Mode) *parser.Parser {
	otherUsers()
	h := fnv.New32a()
	h.Write([]byte(src))
	bits := h.Sum32()
	lb := lexer.NewBuilder()
	if bits&1 == 1 {
		sib := parser.NewBuilder(lb)
		sib.WithTolerantMode(!m.Tolerant)
		sib.WithSmartSemicolon(!m.Smart)
		sib.Build("sibling(1)\n{ \"open").ParseProgram()
	}
	pb := parser.NewBuilder(lb)
	if bits&4 == 4 {
		// a builder that was configured the other way round first (and, for half of
		// these, used that way) and is then set to the wanted modes: the last call
		// of each option decides
		pb.WithTolerantMode(!m.Tolerant)
		pb.WithSmartSemicolon(!m.Smart)
		if bits&8 == 8 {
			pb.Build("warm(1)\n(2)\n[3]\nlet a = 1 let b").ParseProgram()
		}
		pb.WithTolerantMode(m.Tolerant)
		pb.WithSmartSemicolon(m.Smart)
	}
	if bits&2 == 2 {
		pb = pb.WithTolerantMode(m.Tolerant).WithSmartSemicolon(m.Smart)
	} else {
		if m.Tolerant {
			pb.WithTolerantMode(true)
		}
		if m.Smart {
			pb.WithSmartSemicolon(true)
		}
	}
	return pb.Build(src)
}

var otherUsersOnce sync.Once

// otherUsers runs, once per process and before the first parser of a check is
// built, what other users of the library in the same process might have done:
// builders with the plugin patterns of the repository's examples (a postfix
// operator on a built-in token and nothing else, an infix operator on a dynamic
// token, a prefix word operator, statement and expression interceptors), each
// used for a parse and a compilation.  Instances share no state, so this must
// not matter to anything that follows.
func otherUsers() {
	otherUsersOnce.Do(func() {
		defer func() { recover() }()
		{ // postfix-only builder (factorial example)
			pb := parser.NewBuilder(lexer.NewBuilder())
			_ = pb.RegisterPostfixOperator(token.NOT, func(tok token.Token, left ast.Expression) ast.Expression { return left })
			prog, _ := pb.Build("let result = 5! + 2!").ParseProgram()
			compiler.New().WithPrettyPrint(compiler.WithSemi(false)).WithSourceMap().Compile(prog)
		}
		{ // dynamic tokens: postfix-only, then infix, then prefix word operator
			lb := lexer.NewBuilder()
			hash, caret, typeofT := lb.RegisterTokenType("hash"), lb.RegisterTokenType("caret"), lb.RegisterTokenType("typeof")
			lb.UseTokenInterceptor(func(l *lexer.Lexer, next func() token.Token) token.Token {
				t := next()
				switch {
				case t.Type == token.ILLEGAL && t.Literal == "#":
					t.Type = hash
				case t.Type == token.ILLEGAL && t.Literal == "^":
					t.Type = caret
				case t.Type == token.IDENT && t.Literal == "typeof":
					t.Type = typeofT
				}
				return t
			})
			pb := parser.NewBuilder(lb)
			_ = pb.RegisterPostfixOperator(hash, func(tok token.Token, left ast.Expression) ast.Expression { return left })
			pb.Build("a# + b#").ParseProgram()
			_ = pb.RegisterInfixOperator(caret, 9, func(tok token.Token, left ast.Expression, right func() ast.Expression) ast.Expression {
				right()
				return left
			})
			_ = pb.RegisterPrefixOperator(typeofT, func(tok token.Token, right func() ast.Expression) ast.Expression { return right() })
			pb.UseStatementInterceptor(func(p *parser.Parser, next func() ast.Statement) ast.Statement { return next() })
			pb.UseExpressionInterceptor(func(p *parser.Parser, next func() ast.Expression) ast.Expression { return next() })
			prog, _ := pb.WithTolerantMode(true).WithSmartSemicolon(true).Build("function f(a) { return typeof a ^ 2# }\n(f)(1) {").ParseProgram()
			if prog != nil {
				compiler.New().Compile(prog)
			}
		}
	})
}

func parseX(src string, m Mode) (*ast.Program, []parser.ParserError, error) {
	p := newParser(src, m)
	prog, err := p.ParseProgram()
	return prog, p.Errors(), err
}

// parseShape parses in strict default mode and converts to ir.
func parseShape(src string) (*ir.Node, error) {
	prog, errs, err := parseX(src, Mode{})
	if err != nil || len(errs) > 0 {
		if len(errs) > 0 {
			return nil, fmt.Errorf("xjs parse error: %s at %d:%d", errs[0].Message, errs[0].Range.Start.Line, errs[0].Range.Start.Column)
		}
		return nil, fmt.Errorf("xjs parse error: %v", err)
	}
	return shape.FromXJS(prog)
}

// Cfg is one compiler configuration.  Indent: -1 compact marker unused; for
// pretty: -1 = tabs, 0..8 = spaces, 99 = library default.
type Cfg struct {
	Pretty bool `json:"pretty,omitempty"`
	Indent int  `json:"indent,omitempty"`
	NoSemi bool `json:"nosemi,omitempty"`
	Map    bool `json:"map,omitempty"`
}

func (c Cfg) String() string {
	if !c.Pretty {
		if c.Map {
			return "compact+map"
		}
		return "compact"
	}
	s := "pretty("
	switch {
	case c.Indent == -1:
		s += "tabs"
	case c.Indent == 99:
		s += "default"
	default:
		s += fmt.Sprintf("%dsp", c.Indent)
	}
	if c.NoSemi {
		s += ",nosemi"
	}
	s += ")"
	if c.Map {
		s += "+map"
	}
	return s
}

func (c Cfg) compiler() *compiler.Compiler {
	k := compiler.New()
	if c.Pretty {
		var opts []compiler.PrettyPrintOption
		switch {
		case c.Indent == -1:
			opts = append(opts, compiler.WithTabs())
		case c.Indent == 99:
		default:
			opts = append(opts, compiler.WithSpaces(c.Indent))
		}
		if c.NoSemi {
			opts = append(opts, compiler.WithSemi(false))
		}
		k = k.WithPrettyPrint(opts...)
	}
	if c.Map {
		k = k.WithSourceMap()
	}
	return k
}

// invariantViolation is raised (as a panic, turned into a failure of the running
// check by guardedCheck) when one of the configuration-independent guarantees
// that every property quantifying over "all configurations" relies on is broken.
type invariantViolation struct{ msg string }

var (
	primerOnce sync.Once
	primerProg *ast.Program
)

// primer: a program that leaves every kind of state behind in a writer that is
// not reset properly - nesting, comments, a multi-line literal, many names, and
// a last statement whose semicolon the no-semicolon option omits.
const primerSrc = "// header\nfunction primer(a, b) {\n  // inner\n  let s = `x  \n  y`\n  if (a) { return b }\n  return a\n}\nlet last = primer(1, 2)"

// compile compiles p in configuration c with a fresh compiler and, on the way,
// checks two guarantees: (1) a compiler value that has compiled something else
// before gives the same result (code, mappings, names) as the fresh one;
// (2) requesting a source map does not change the code.
func compile(p *ast.Program, c Cfg) compiler.CompileResult {
	res := c.compiler().Compile(p)
	primerOnce.Do(func() {
		primerProg, _ = parser.NewBuilder(lexer.NewBuilder()).Build(primerSrc).ParseProgram()
	})
	if primerProg != nil && p != nil {
		used := c.compiler()
		used.Compile(primerProg)
		again := used.Compile(p)
		if again.Code != res.Code || (res.SourceMap == nil) != (again.SourceMap == nil) || (res.SourceMap != nil && (res.SourceMap.Mappings != again.SourceMap.Mappings || fmt.Sprint(res.SourceMap.Names) != fmt.Sprint(again.SourceMap.Names))) {
			am, rm := "", ""
			if again.SourceMap != nil && res.SourceMap != nil {
				am, rm = again.SourceMap.Mappings, res.SourceMap.Mappings
			}
			panic(invariantViolation{fmt.Sprintf("[%s] a compiler value that compiled another program before gives a different result than a fresh one\nfresh  %q %q\nreused %q %q", c, res.Code, rm, again.Code, am)})
		}
		twin := c
		twin.Map = !c.Map
		if other := twin.compiler().Compile(p).Code; other != res.Code {
			panic(invariantViolation{fmt.Sprintf("[%s] requesting a source map changes the generated code\n%-30s %q\n%-30s %q", c, c.String(), res.Code, twin.String(), other)})
		}
	}
	return res
}

// prettyCfgs: 10 indent units x 2 semicolon settings.
func prettyCfgs() []Cfg {
	var out []Cfg
	for _, nosemi := range []bool{false, true} {
		for ind := -1; ind <= 8; ind++ {
			out = append(out, Cfg{Pretty: true, Indent: ind, NoSemi: nosemi})
		}
	}
	return out
}

// allCfgs: compact + 20 pretty, each with and without source map.
func allCfgs() []Cfg {
	var out []Cfg
	base := append([]Cfg{{}}, prettyCfgs()...)
	for _, c := range base {
		out = append(out, c)
		c.Map = true
		out = append(out, c)
	}
	return out
}

func lexAll(src string) []token.Token {
	l := lexer.NewBuilder().Build(src)
	var out []token.Token
	for i := 0; i < len(src)+3; i++ {
		t := l.NextToken()
		out = append(out, t)
		if t.Type == token.EOF {
			break
		}
	}
	return out
}

func countOps(n *ir.Node) (ops int, levels map[int]bool) {
	levels = map[int]bool{}
	ir.Walk(n, func(x *ir.Node) {
		switch x.K {
		case ir.Binary:
			ops++
			levels[binLevel(x.Op)] = true
		case ir.Unary:
			ops++
			levels[9] = true
		case ir.Postfix:
			ops++
			levels[10] = true
		case ir.Assign:
			ops++
			levels[2] = true
		case ir.Call, ir.Member, ir.Index:
			ops++
			levels[12] = true
		}
	})
	return
}

func binLevel(op string) int {
	switch op {
	case "||":
		return 3
	case "&&":
		return 4
	case "==", "!=":
		return 5
	case "<", ">", "<=", ">=":
		return 6
	case "+", "-":
		return 7
	}
	return 8
}

func countStmts(n *ir.Node) int {
	c := 0
	ir.Walk(n, func(x *ir.Node) {
		if ir.IsStmt(x.K) && x.K != ir.Program {
			c++
		}
	})
	return c
}

var _ = strings.Contains
