package props

import (
	"fmt"
	"strings"

	"github.com/xjslang/xjs/ast"
	"github.com/xjslang/xjs/compiler"
	"github.com/xjslang/xjs/lexer"
	"github.com/xjslang/xjs/parser"
	"github.com/xjslang/xjs/token"

	"verif/harness/ir"
	"verif/harness/shape"
)

type Mode struct {
	Tolerant bool `json:"tolerant,omitempty"`
	Smart    bool `json:"smart,omitempty"`
}

var allModes = []Mode{{}, {Tolerant: true}, {Smart: true}, {Tolerant: true, Smart: true}}

func newParser(src string, m Mode) *parser.Parser {
	pb := parser.NewBuilder(lexer.NewBuilder())
	if m.Tolerant {
		pb.WithTolerantMode(true)
	}
	if m.Smart {
		pb.WithSmartSemicolon(true)
	}
	return pb.Build(src)
}

func parseX(src string, m Mode) (*ast.Program, []parser.ParserError, error) {
	p := newParser(src, m)
	prog, err := p.ParseProgram()
	return prog, p.Errors(), err
}

// parseShape parses in strict default mode and converts to ir.
func parseShape(src string) (*ir.Node, error) {
	prog, errs, err := parseX(src, Mode{})
	if err != nil || len(errs) > 0 {
		if len(errs) > 0 {
			return nil, fmt.Errorf("xjs parse error: %s at %d:%d", errs[0].Message, errs[0].Range.Start.Line, errs[0].Range.Start.Column)
		}
		return nil, fmt.Errorf("xjs parse error: %v", err)
	}
	return shape.FromXJS(prog)
}

// Cfg is one compiler configuration.  Indent: -1 compact marker unused; for
// pretty: -1 = tabs, 0..8 = spaces, 99 = library default.
type Cfg struct {
	Pretty bool `json:"pretty,omitempty"`
	Indent int  `json:"indent,omitempty"`
	NoSemi bool `json:"nosemi,omitempty"`
	Map    bool `json:"map,omitempty"`
}

func (c Cfg) String() string {
	if !c.Pretty {
		if c.Map {
			return "compact+map"
		}
		return "compact"
	}
	s := "pretty("
	switch {
	case c.Indent == -1:
		s += "tabs"
	case c.Indent == 99:
		s += "default"
	default:
		s += fmt.Sprintf("%dsp", c.Indent)
	}
	if c.NoSemi {
		s += ",nosemi"
	}
	s += ")"
	if c.Map {
		s += "+map"
	}
	return s
}

func (c Cfg) compiler() *compiler.Compiler {
	k := compiler.New()
	if c.Pretty {
		var opts []compiler.PrettyPrintOption
		switch {
		case c.Indent == -1:
			opts = append(opts, compiler.WithTabs())
		case c.Indent == 99:
		default:
			opts = append(opts, compiler.WithSpaces(c.Indent))
		}
		if c.NoSemi {
			opts = append(opts, compiler.WithSemi(false))
		}
		k = k.WithPrettyPrint(opts...)
	}
	if c.Map {
		k = k.WithSourceMap()
	}
	return k
}

func compile(p *ast.Program, c Cfg) compiler.CompileResult { return c.compiler().Compile(p) }

// prettyCfgs: 10 indent units x 2 semicolon settings.
func prettyCfgs() []Cfg {
	var out []Cfg
	for _, nosemi := range []bool{false, true} {
		for ind := -1; ind <= 8; ind++ {
			out = append(out, Cfg{Pretty: true, Indent: ind, NoSemi: nosemi})
		}
	}
	return out
}

// allCfgs: compact + 20 pretty, each with and without source map.
func allCfgs() []Cfg {
	var out []Cfg
	base := append([]Cfg{{}}, prettyCfgs()...)
	for _, c := range base {
		out = append(out, c)
		c.Map = true
		out = append(out, c)
	}
	return out
}

func lexAll(src string) []token.Token {
	l := lexer.NewBuilder().Build(src)
	var out []token.Token
	for i := 0; i < len(src)+3; i++ {
		t := l.NextToken()
		out = append(out, t)
		if t.Type == token.EOF {
			break
		}
	}
	return out
}

func countOps(n *ir.Node) (ops int, levels map[int]bool) {
	levels = map[int]bool{}
	ir.Walk(n, func(x *ir.Node) {
		switch x.K {
		case ir.Binary:
			ops++
			levels[binLevel(x.Op)] = true
		case ir.Unary:
			ops++
			levels[9] = true
		case ir.Postfix:
			ops++
			levels[10] = true
		case ir.Assign:
			ops++
			levels[2] = true
		case ir.Call, ir.Member, ir.Index:
			ops++
			levels[12] = true
		}
	})
	return
}

func binLevel(op string) int {
	switch op {
	case "||":
		return 3
	case "&&":
		return 4
	case "==", "!=":
		return 5
	case "<", ">", "<=", ">=":
		return 6
	case "+", "-":
		return 7
	}
	return 8
}

func countStmts(n *ir.Node) int {
	c := 0
	ir.Walk(n, func(x *ir.Node) {
		if ir.IsStmt(x.K) && x.K != ir.Program {
			c++
		}
	})
	return c
}

var _ = strings.Contains
