package props

import (
	"fmt"
	"reflect"
	"strings"
	"testing"
	"unicode/utf8"

	"pgregory.net/rapid"

	"verif/harness/evid"
	"verif/harness/gen"
	"verif/harness/layout"
	"verif/harness/reflex"
	"verif/harness/smdec"
)

// C08 — source map segments link identical lexemes.

type c08Case struct {
	Src  string `json:"src"`
	Cfgs []Cfg  `json:"cfgs,omitempty"`
}

type textIndex struct {
	text  string
	lines []int // start offset of each line
}

func newTextIndex(s string) *textIndex {
	ti := &textIndex{text: s, lines: []int{0}}
	for i := 0; i < len(s); i++ {
		if s[i] == '\n' {
			ti.lines = append(ti.lines, i+1)
		}
	}
	return ti
}

// offset converts (line, col) to a byte offset; utf16 selects the column unit.
func (ti *textIndex) offset(line, col int, utf16 bool) int {
	if line < 0 || line >= len(ti.lines) || col < 0 {
		return -1
	}
	start := ti.lines[line]
	end := len(ti.text)
	if line+1 < len(ti.lines) {
		end = ti.lines[line+1] - 1
	}
	if !utf16 {
		if start+col > end {
			return -1
		}
		return start + col
	}
	off, units := start, 0
	for off < end && units < col {
		r, sz := utf8.DecodeRuneInString(ti.text[off:])
		if r >= 0x10000 {
			units += 2
		} else {
			units++
		}
		off += sz
	}
	if units != col {
		return -1
	}
	return off
}

// lexemeAt classifies and extracts the lexeme starting at off.
func lexemeAt(s string, off int) (class, text string) {
	if off < 0 || off >= len(s) {
		return "none", ""
	}
	c := s[off]
	switch {
	case reflex.IsIdentStart(c):
		e := off
		for e < len(s) && reflex.IsIdentPart(s[e]) {
			e++
		}
		return "word", s[off:e]
	case reflex.IsDigit(c):
		// the whole numeric literal: fraction and signed exponent included
		e := off
		hex := off+1 < len(s) && (s[off+1] == 'x' || s[off+1] == 'X')
		for e < len(s) && (reflex.IsIdentPart(s[e]) || (s[e] == '.' && e+1 < len(s) && reflex.IsDigit(s[e+1])) || ((s[e] == '+' || s[e] == '-') && !hex && e > off && (s[e-1] == 'e' || s[e-1] == 'E'))) {
			e++
		}
		return "number", s[off:e]
	case c == '"' || c == '\'':
		return "string", ""
	case c == '`':
		return "template", ""
	}
	if op := reflex.OperatorAt([]byte(s), off); op != "" {
		return "punct", op
	}
	return "other", string(c)
}

// identOccurrences lists the offsets of identifiers (non-keywords) in code,
// outside strings, templates and comments.
func identOccurrences(code string) (offs []int, names []string) {
	b := []byte(code)
	i := 0
	for i < len(b) {
		c := b[i]
		switch {
		case c == '/' && i+1 < len(b) && b[i+1] == '/':
			for i < len(b) && b[i] != '\n' {
				i++
			}
		case c == '"' || c == '\'' || c == '`':
			i, _ = reflex.StringEnd(b, i)
		case reflex.IsIdentStart(c):
			e := i
			for e < len(b) && reflex.IsIdentPart(b[e]) {
				e++
			}
			w := string(b[i:e])
			if !reflex.Keywords[w] {
				offs = append(offs, i)
				names = append(names, w)
			}
			i = e
		case reflex.IsDigit(c):
			for i < len(b) && (reflex.IsIdentPart(b[i]) || (b[i] == '.' && i+1 < len(b) && reflex.IsDigit(b[i+1])) || ((b[i] == '+' || b[i] == '-') && (b[i-1] == 'e' || b[i-1] == 'E'))) {
				i++
			}
		default:
			i++
		}
	}
	return
}

type lexeme struct {
	off         int
	class, text string
}

// scanLexemes lists the lexemes of a text (comments, white space and `;` left out).
func scanLexemes(code string) (out []lexeme) {
	b := []byte(code)
	i := 0
	for i < len(b) {
		c := b[i]
		switch {
		case c == '/' && i+1 < len(b) && b[i+1] == '/':
			for i < len(b) && b[i] != '\n' {
				i++
			}
		case reflex.IsSpace(c) || c == ';':
			i++
		case c == '"' || c == '\'':
			out = append(out, lexeme{i, "string", ""})
			i, _ = reflex.StringEnd(b, i)
		case c == '`':
			out = append(out, lexeme{i, "template", ""})
			i, _ = reflex.StringEnd(b, i)
		case reflex.IsIdentStart(c):
			e := i
			for e < len(b) && reflex.IsIdentPart(b[e]) {
				e++
			}
			out = append(out, lexeme{i, "word", string(b[i:e])})
			i = e
		case reflex.IsDigit(c):
			e := i
			for e < len(b) && (reflex.IsIdentPart(b[e]) || (b[e] == '.' && e+1 < len(b) && reflex.IsDigit(b[e+1])) || ((b[e] == '+' || b[e] == '-') && (b[e-1] == 'e' || b[e-1] == 'E') && !(len(b) > i+1 && (b[i+1] == 'x' || b[i+1] == 'X')))) {
				e++
			}
			out = append(out, lexeme{i, "number", string(b[i:e])})
			i = e
		default:
			if op := reflex.OperatorAt(b, i); op != "" {
				out = append(out, lexeme{i, "punct", op})
				i += len(op)
			} else {
				out = append(out, lexeme{i, "other", string(c)})
				i++
			}
		}
	}
	return out
}

func canonNumber(s string) string {
	s = strings.ToLower(s)
	if !strings.HasPrefix(s, "0x") {
		s = strings.Replace(s, "e+", "e", 1)
	}
	return s
}

func offsetToLineCol(ti *textIndex, off int) (int, int) {
	l := 0
	for k := range ti.lines {
		if ti.lines[k] <= off {
			l = k
		}
	}
	return l, off - ti.lines[l]
}

func c08Check(c c08Case, rec *evid.Recorder) *Fail {
	p, errs, err := parseX(c.Src, Mode{})
	if err != nil || len(errs) > 0 {
		rec.Discard("source rejected by xjs")
		return nil
	}
	cfgs := c.Cfgs
	if len(cfgs) == 0 {
		cfgs = []Cfg{{Map: true}, {Pretty: true, Indent: 99, Map: true}, {Pretty: true, Indent: -1, NoSemi: true, Map: true}, {Pretty: true, Indent: 4, Map: true}}
	}
	srcIdx := newTextIndex(c.Src)
	for _, cfg := range cfgs {
		rec.Eval()
		// one compiler value, used twice: the map of the second compilation is the
		// one examined, and it must be the map of the first
		k := cfg.compiler()
		first := k.Compile(p)
		res := k.Compile(p)
		if res.SourceMap == nil || first.SourceMap == nil {
			return failf("[%s] no source map", cfg)
		}
		if first.Code != res.Code || first.SourceMap.Mappings != res.SourceMap.Mappings || !reflect.DeepEqual(first.SourceMap.Names, res.SourceMap.Names) {
			return failf("[%s] compiling the same tree twice with one compiler gives different results\nfirst  %q %q %v\nsecond %q %q %v", cfg, first.Code, first.SourceMap.Mappings, first.SourceMap.Names, res.Code, res.SourceMap.Mappings, res.SourceMap.Names)
		}
		segs, err := smdec.Decode(res.SourceMap.Mappings)
		if err != nil {
			return failf("[%s] mappings do not decode: %v", cfg, err)
		}
		gen := newTextIndex(res.Code)
		covered := map[int]string{}
		// occurrence alignment: when the generated code has the same lexeme
		// sequence as the source (semicolons aside), "the same token" is the
		// token with the same index, not merely an equal one
		gl, sl := scanLexemes(res.Code), scanLexemes(c.Src)
		aligned := len(gl) == len(sl)
		for i := 0; aligned && i < len(gl); i++ {
			aligned = gl[i].class == sl[i].class && (gl[i].text == sl[i].text || (gl[i].class == "number" && canonNumber(gl[i].text) == canonNumber(sl[i].text)))
		}
		gIdx := map[int]int{}
		if aligned {
			for i, l := range gl {
				gIdx[l.off] = i
			}
			rec.Class("lexeme-sequences-aligned")
		} else {
			rec.Class("lexeme-sequences-not-aligned (printer added or removed tokens)")
		}
		prevL, prevC := 0, -1
		for i, s := range segs {
			if s.Fields < 4 {
				return failf("[%s] segment %d has no source position", cfg, i)
			}
			if s.GenLine < prevL || (s.GenLine == prevL && s.GenCol < prevC) {
				return failf("[%s] segment %d (%d:%d) precedes segment %d (%d:%d): not ordered by generated position", cfg, i, s.GenLine, s.GenCol, i-1, prevL, prevC)
			}
			prevL, prevC = s.GenLine, s.GenCol
			ok := false
			var why string
			// column units: bytes or UTF-16 code units, chosen per side (the property
			// does not fix the unit; on ASCII-only lines all readings coincide)
			for _, units := range [][2]bool{{false, false}, {true, true}, {true, false}, {false, true}} {
				g := gen.offset(s.GenLine, s.GenCol, units[0])
				so := srcIdx.offset(s.SrcLine, s.SrcCol, units[1])
				if g < 0 || g >= len(res.Code) {
					why = fmt.Sprintf("generated position %d:%d lies outside the generated code", s.GenLine, s.GenCol)
					continue
				}
				if so < 0 || so >= len(c.Src) {
					why = fmt.Sprintf("source position %d:%d lies outside the source", s.SrcLine, s.SrcCol)
					continue
				}
				gc, gt := lexemeAt(res.Code, g)
				sc, st := lexemeAt(c.Src, so)
				if gc == "number" && sc == "number" {
					// the same numeric literal may be printed in a canonical spelling
					// (`0XFF` as `0xff`, `1E+3` as `1e3`); which literal it is is fixed
					// by the occurrence alignment below
					gt, st = canonNumber(gt), canonNumber(st)
				}
				if gc != sc || gt != st || gc == "none" || gc == "other" {
					why = fmt.Sprintf("generated %d:%d starts %s %q, source %d:%d starts %s %q", s.GenLine, s.GenCol, gc, gt, s.SrcLine, s.SrcCol, sc, st)
					continue
				}
				if s.HasName {
					if s.Name < 0 || s.Name >= len(res.SourceMap.Names) {
						why = fmt.Sprintf("name index %d out of range", s.Name)
						continue
					}
					if gc != "word" || res.SourceMap.Names[s.Name] != gt {
						why = fmt.Sprintf("segment carries name %q but the generated token is %s %q", res.SourceMap.Names[s.Name], gc, gt)
						continue
					}
					covered[g] = gt
				}
				if aligned {
					k, isTok := gIdx[g]
					if !isTok {
						why = fmt.Sprintf("generated position %d:%d is not the start of a token of the generated code", s.GenLine, s.GenCol)
						continue
					}
					if sl[k].off != so {
						sline, scol := offsetToLineCol(srcIdx, sl[k].off)
						why = fmt.Sprintf("generated %d:%d is token #%d (%s %q) of the output; the same token of the source begins at %d:%d, the segment points at %d:%d (an equal lexeme elsewhere)", s.GenLine, s.GenCol, k, gc, gt, sline, scol, s.SrcLine, s.SrcCol)
						continue
					}
				}
				ok = true
				break
			}
			if !ok {
				return failf("[%s] segment %d does not link identical lexemes: %s\nsrc  %q\ncode %q\nmappings %q", cfg, i, why, c.Src, res.Code, res.SourceMap.Mappings)
			}
		}
		offs, names := identOccurrences(res.Code)
		for i, o := range offs {
			if covered[o] != names[i] {
				l, col := 0, 0
				for k := range gen.lines {
					if gen.lines[k] <= o {
						l, col = k, o-gen.lines[k]
					}
				}
				return failf("[%s] identifier %q at generated %d:%d is not covered by a named segment\nsrc  %q\ncode %q", cfg, names[i], l, col, c.Src, res.Code)
			}
		}
		twoChar := strings.Contains(c.Src, "==") || strings.Contains(c.Src, "<=") || strings.Contains(c.Src, "&&") || strings.Contains(c.Src, "++") || strings.Contains(c.Src, "+=") || strings.Contains(c.Src, "||")
		if (len(gen.lines) >= 2 || len(srcIdx.lines) >= 2) && twoChar && len(offs) >= 5 {
			rec.NonTrivial(cfg.String() + "|" + c.Src)
		}
	}
	rec.Sample(len(c.Src), map[string]interface{}{"src": c.Src})
	return nil
}

func c08Gen(t *rapid.T, rec *evid.Recorder) c08Case {
	r := gen.R{T: t}
	g := &gen.Syn{R: r, MaxDepth: 1 + r.Intn(4, "depth"), StmtDepth: r.Intn(4, "sdepth"), RichStr: true, Tpl: true, MultiTpl: true}
	tree := g.Program(5)
	opt := layout.Options{Random: true, ASI: true, Comments: true, CRLF: r.Intn(6, "crlf") == 0}
	if r.Intn(3, "redundant") == 0 {
		opt.Redundant = 100
	}
	src, toks := layout.Source(r, tree, opt)
	for k := range layoutFeatures(src, toks) {
		rec.Class("layout:" + k)
	}
	c := c08Case{Src: src}
	if thorough() {
		c.Cfgs = []Cfg{{Map: true}}
		for _, pc := range prettyCfgs() {
			pc.Map = true
			c.Cfgs = append(c.Cfgs, pc)
		}
	} else {
		// compact, the default pretty options and two of the 20 pretty configurations drawn per case
		c.Cfgs = []Cfg{{Map: true}, {Pretty: true, Indent: 99, Map: true}}
		all := prettyCfgs()
		for k := 0; k < 2; k++ {
			pc := all[r.Intn(len(all), "prettycfg")]
			pc.Map = true
			c.Cfgs = append(c.Cfgs, pc)
			rec.Class("config:" + pc.String())
		}
	}
	return c
}

var c08Witnesses = []c08Case{
	{Src: "let a = b == c && d <= e\nfoo(a, b)"},
	{Src: "function f(x, y) {\n  // c\n  return x += y\n}\n\nf(1, \"é\" + z)"},
	{Src: "if (a) b; else c\nwhile (i++ < 10) { j-- }"},
	{Src: "x = {k: v, 'q': [m, n]}\n// tail"},
}

func TestC08(t *testing.T) {
	run(t, &prop[c08Case]{ID: "C08", Gen: c08Gen, Check: c08Check, Witnesses: c08Witnesses})
}
