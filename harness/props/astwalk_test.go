package props

import (
	"reflect"

	"github.com/xjslang/xjs/ast"
)

// walkAST visits every ast.Node reachable from root (pre-order), parents first.
func walkAST(root interface{}, visit func(n ast.Node, parent ast.Node, field string)) {
	nodeType := reflect.TypeOf((*ast.Node)(nil)).Elem()
	var rec func(v reflect.Value, parent ast.Node, field string)
	rec = func(v reflect.Value, parent ast.Node, field string) {
		switch v.Kind() {
		case reflect.Interface:
			if v.IsNil() {
				return
			}
			rec(v.Elem(), parent, field)
		case reflect.Ptr:
			if v.IsNil() {
				return
			}
			cur := parent
			if v.Type().Implements(nodeType) {
				n := v.Interface().(ast.Node)
				visit(n, parent, field)
				cur = n
			}
			e := v.Elem()
			if e.Kind() == reflect.Struct {
				for i := 0; i < e.NumField(); i++ {
					if !e.Type().Field(i).IsExported() {
						continue
					}
					if e.Type().Field(i).Type.PkgPath() == "github.com/xjslang/xjs/token" {
						continue
					}
					rec(e.Field(i), cur, e.Type().Field(i).Name)
				}
			}
		case reflect.Struct:
			for i := 0; i < v.NumField(); i++ {
				if !v.Type().Field(i).IsExported() || v.Type().Field(i).Type.PkgPath() == "github.com/xjslang/xjs/token" {
					continue
				}
				rec(v.Field(i), parent, v.Type().Field(i).Name)
			}
		case reflect.Slice:
			for i := 0; i < v.Len(); i++ {
				rec(v.Index(i), parent, field)
			}
		}
	}
	rec(reflect.ValueOf(root), nil, "")
}
