package props

import (
	"reflect"

	"github.com/xjslang/xjs/ast"
	"github.com/xjslang/xjs/token"
)

// walkAST visits every ast.Node reachable from root (pre-order), parents first.
func walkAST(root interface{}, visit func(n ast.Node, parent ast.Node, field string)) {
	nodeType := reflect.TypeOf((*ast.Node)(nil)).Elem()
	var rec func(v reflect.Value, parent ast.Node, field string)
	rec = func(v reflect.Value, parent ast.Node, field string) {
		switch v.Kind() {
		case reflect.Interface:
			if v.IsNil() {
				return
			}
			rec(v.Elem(), parent, field)
		case reflect.Ptr:
			if v.IsNil() {
				return
			}
			cur := parent
			if v.Type().Implements(nodeType) {
				n := v.Interface().(ast.Node)
				visit(n, parent, field)
				cur = n
			}
			e := v.Elem()
			if e.Kind() == reflect.Struct {
				for i := 0; i < e.NumField(); i++ {
					if !e.Type().Field(i).IsExported() {
						continue
					}
					if e.Type().Field(i).Type.PkgPath() == "github.com/xjslang/xjs/token" {
						continue
					}
					rec(e.Field(i), cur, e.Type().Field(i).Name)
				}
			}
		case reflect.Struct:
			for i := 0; i < v.NumField(); i++ {
				if !v.Type().Field(i).IsExported() || v.Type().Field(i).Type.PkgPath() == "github.com/xjslang/xjs/token" {
					continue
				}
				rec(v.Field(i), parent, v.Type().Field(i).Name)
			}
		case reflect.Slice:
			for i := 0; i < v.Len(); i++ {
				rec(v.Index(i), parent, field)
			}
		}
	}
	rec(reflect.ValueOf(root), nil, "")
}

// astTokens returns every token stored in the tree, in depth-first field order
// (the same order for two trees of the same shape).
func astTokens(root interface{}) []token.Token {
	var out []token.Token
	var pending []string // trivia of skipped parenthesis tokens
	tokType := reflect.TypeOf(token.Token{})
	var rec func(v reflect.Value)
	rec = func(v reflect.Value) {
		switch v.Kind() {
		case reflect.Interface, reflect.Ptr:
			if !v.IsNil() {
				rec(v.Elem())
			}
		case reflect.Struct:
			if v.Type() == tokType {
				t := v.Interface().(token.Token)
				if len(pending) > 0 {
					t.LeadingComments = append(append([]string(nil), pending...), t.LeadingComments...)
					pending = nil
				}
				out = append(out, t)
				return
			}
			if v.Type() == reflect.TypeOf(ast.GroupedExpression{}) {
				// parentheses may be added by the printer: their tokens are not counted,
				// and what stands in front of the parenthesis stands in front of the
				// first token inside it
				if g, ok := v.Interface().(ast.GroupedExpression); ok {
					pending = append(pending, g.Token.LeadingComments...)
				}
				rec(v.FieldByName("Expression"))
				return
			}
			for i := 0; i < v.NumField(); i++ {
				if v.Type().Field(i).IsExported() {
					rec(v.Field(i))
				}
			}
		case reflect.Slice:
			for i := 0; i < v.Len(); i++ {
				rec(v.Index(i))
			}
		}
	}
	rec(reflect.ValueOf(root))
	return out
}
