package props

import (
	"fmt"

	"github.com/xjslang/xjs/ast"
	"github.com/xjslang/xjs/token"

	"verif/harness/ir"
)

// Programmatic construction of xjs ASTs from ir trees, the way a plugin
// would assemble them: struct literals with synthesised tokens (type and
// literal consistent with the operator, no positions, no trivia).  No
// grouping nodes are inserted except where the property's quantifier demands
// call-level-or-tighter operands (callee / member object).

var opTok = map[string]token.Type{
	"=": token.ASSIGN, "+=": token.PLUS_ASSIGN, "-=": token.MINUS_ASSIGN, "+": token.PLUS, "-": token.MINUS, "*": token.MULTIPLY, "/": token.DIVIDE, "%": token.MODULO,
	"==": token.EQ, "!=": token.NOT_EQ, "<": token.LT, ">": token.GT, "<=": token.LTE, ">=": token.GTE, "&&": token.AND, "||": token.OR, "!": token.NOT,
	"++": token.INCREMENT, "--": token.DECREMENT,
}

func tk(t token.Type, lit string) token.Token { return token.Token{Type: t, Literal: lit} }

func bIdent(name string) *ast.Identifier {
	return &ast.Identifier{Token: tk(token.IDENT, name), Value: name}
}

// opTk: like tk, but the token may carry leading trivia (a line break marker
// and/or a comment), as the operator tokens of a tree that a plugin rewrote do.
// Only operator tokens of binary, assignment and postfix nodes get trivia: the
// first two are positions where the parser itself records trivia, the third is
// the one the printer handles specially (it replays the trivia in front of the
// operand, because a line break before a postfix operator would end the
// statement).  The pattern is cyclic over these tokens in creation order.
func (b astBuilder) opTk(t token.Type, lit string) token.Token {
	tok := tk(t, lit)
	if len(b.Trivia) > 0 && b.n != nil {
		switch b.Trivia[*b.n%len(b.Trivia)] {
		case 1:
			tok.LeadingComments = []string{" c"}
		case 2:
			tok.LeadingComments = []string{""}
		case 3:
			tok.LeadingComments = []string{"", " own line", ""}
		}
		*b.n++
	}
	return tok
}

func callLevel(n *ir.Node) bool {
	switch n.K {
	case ir.Ident, ir.Num, ir.Str, ir.Tpl, ir.Bool, ir.Null, ir.Call, ir.Member, ir.Index, ir.Array, ir.Object, ir.Func:
		return true
	}
	return false
}

type astBuilder struct {
	// GroupLoose wraps operands that are looser than call level in callee and
	// member-object position into explicit grouping nodes.
	GroupLoose bool
	// Trivia: see b.tk (0 = none, 1 = comment, 2 = line break, 3 = blank line + own-line comment)
	Trivia []int
	n      *int
	// postfix nodes on the leftmost spine of a return value: trivia replayed in
	// front of their operand would put a line break right after `return`
	noTrivia map[*ir.Node]bool
}

// returnSpines marks the nodes on the leftmost spine of every return value.
func returnSpines(root *ir.Node) map[*ir.Node]bool {
	m := map[*ir.Node]bool{}
	ir.Walk(root, func(n *ir.Node) {
		if n.K != ir.Return || len(n.Kids) == 0 || n.Kids[0] == nil {
			return
		}
		for x := n.Kids[0]; x != nil; {
			m[x] = true
			switch x.K {
			case ir.Binary, ir.Assign, ir.Postfix, ir.Call, ir.Member, ir.Index:
				x = x.Kids[0]
			default:
				x = nil
			}
		}
	})
	return m
}

func (b astBuilder) group(e ast.Expression) ast.Expression {
	return &ast.GroupedExpression{Token: tk(token.LPAREN, "("), Expression: e, RParen: tk(token.RPAREN, ")")}
}

func (b astBuilder) operand(n *ir.Node) ast.Expression {
	e := b.expr(n)
	if b.GroupLoose && !callLevel(n) {
		return b.group(e)
	}
	return e
}

// strLiteralValue renders a generator-side string as the Value a plugin would
// store: the spelling between the quotes, re-quoted for double quotes.
func strLiteralValue(n *ir.Node) string {
	if n.Pieces == nil && n.Quote == "" {
		return n.Op
	}
	return n.Spelling()
}

func (b astBuilder) expr(n *ir.Node) ast.Expression {
	switch n.K {
	case ir.Ident:
		return bIdent(n.Op)
	case ir.Num:
		isFloat := false
		for _, c := range n.Op {
			if c == '.' || ((c == 'e' || c == 'E') && !(len(n.Op) > 1 && (n.Op[1] == 'x' || n.Op[1] == 'X'))) {
				isFloat = true
			}
		}
		if isFloat {
			return &ast.FloatLiteral{Token: tk(token.FLOAT, n.Op)}
		}
		return &ast.IntegerLiteral{Token: tk(token.INT, n.Op)}
	case ir.Str:
		v := strLiteralValue(n)
		return &ast.StringLiteral{Token: tk(token.STRING, v), Value: v}
	case ir.Tpl:
		// Value as the lexer delivers it: escaped backticks unescaped, every
		// other escape pair kept as written
		var v []byte
		for i := 0; i < len(n.Op); i++ {
			if n.Op[i] == '\\' && i+1 < len(n.Op) {
				if n.Op[i+1] != '`' {
					v = append(v, '\\')
				}
				v = append(v, n.Op[i+1])
				i++
				continue
			}
			v = append(v, n.Op[i])
		}
		return &ast.MultiStringLiteral{Token: tk(token.RAW_STRING, string(v)), Value: string(v)}
	case ir.Bool:
		if n.Op == "true" {
			return &ast.BooleanLiteral{Token: tk(token.TRUE, "true"), Value: true}
		}
		return &ast.BooleanLiteral{Token: tk(token.FALSE, "false"), Value: false}
	case ir.Null:
		return &ast.NullLiteral{Token: tk(token.NULL, "null")}
	case ir.Unary:
		return &ast.UnaryExpression{Token: tk(opTok[n.Op], n.Op), Operator: n.Op, Right: b.expr(n.Kids[0])}
	case ir.Postfix:
		if b.noTrivia[n] {
			return &ast.PostfixExpression{Token: tk(opTok[n.Op], n.Op), Left: b.expr(n.Kids[0]), Operator: n.Op}
		}
		return &ast.PostfixExpression{Token: b.opTk(opTok[n.Op], n.Op), Left: b.expr(n.Kids[0]), Operator: n.Op}
	case ir.Binary:
		return &ast.BinaryExpression{Token: b.opTk(opTok[n.Op], n.Op), Left: b.expr(n.Kids[0]), Operator: n.Op, Right: b.expr(n.Kids[1])}
	case ir.Assign:
		if n.Op == "=" {
			return &ast.AssignmentExpression{Token: b.opTk(token.ASSIGN, "="), Left: b.expr(n.Kids[0]), Value: b.expr(n.Kids[1])}
		}
		return &ast.CompoundAssignmentExpression{Token: b.opTk(opTok[n.Op], n.Op), Left: b.expr(n.Kids[0]), Operator: n.Op[:1], Value: b.expr(n.Kids[1])}
	case ir.Call:
		c := &ast.CallExpression{Token: tk(token.LPAREN, "("), Function: b.operand(n.Kids[0]), Arguments: []ast.Expression{}}
		for _, a := range n.Kids[1:] {
			c.Arguments = append(c.Arguments, b.expr(a))
		}
		return c
	case ir.Member:
		return &ast.MemberExpression{Token: tk(token.DOT, "."), Object: b.operand(n.Kids[0]), Property: bIdent(n.Op)}
	case ir.Index:
		return &ast.MemberExpression{Token: tk(token.LBRACKET, "["), Object: b.operand(n.Kids[0]), Property: b.expr(n.Kids[1]), Computed: true}
	case ir.Array:
		a := &ast.ArrayLiteral{Token: tk(token.LBRACKET, "["), Elements: []ast.Expression{}, RBracket: tk(token.RBRACKET, "]")}
		for _, e := range n.Kids {
			a.Elements = append(a.Elements, b.expr(e))
		}
		return a
	case ir.Object:
		o := &ast.ObjectLiteral{Token: tk(token.LBRACE, "{"), Properties: []ast.ObjectProperty{}, RBrace: tk(token.RBRACE, "}")}
		for i := 0; i+1 < len(n.Kids); i += 2 {
			o.Properties = append(o.Properties, ast.ObjectProperty{Key: b.expr(n.Kids[i]), Value: b.expr(n.Kids[i+1])})
		}
		return o
	case ir.Func:
		f := &ast.FunctionExpression{Token: tk(token.FUNCTION, "function"), Parameters: []*ast.Identifier{}, Body: b.block(n.Kids[0])}
		if n.Op != "" {
			f.Name = bIdent(n.Op)
		}
		for _, p := range n.Params {
			f.Parameters = append(f.Parameters, bIdent(p))
		}
		return f
	}
	panic(fmt.Sprintf("astBuilder: not an expression: %s", n.K))
}

func (b astBuilder) block(n *ir.Node) *ast.BlockStatement {
	blk := &ast.BlockStatement{Token: tk(token.LBRACE, "{"), Statements: []ast.Statement{}, RBrace: tk(token.RBRACE, "}")}
	for _, s := range n.Kids {
		blk.Statements = append(blk.Statements, b.stmt(s))
	}
	return blk
}

func (b astBuilder) stmt(n *ir.Node) ast.Statement {
	switch n.K {
	case ir.Let:
		s := &ast.LetStatement{Token: tk(token.LET, "let"), Name: bIdent(n.Op)}
		if n.Kids[0] != nil {
			s.Value = b.expr(n.Kids[0])
		}
		return s
	case ir.FuncDecl:
		f := &ast.FunctionDeclaration{Token: tk(token.FUNCTION, "function"), Name: bIdent(n.Op), Parameters: []*ast.Identifier{}, Body: b.block(n.Kids[0])}
		for _, p := range n.Params {
			f.Parameters = append(f.Parameters, bIdent(p))
		}
		return f
	case ir.Return:
		s := &ast.ReturnStatement{Token: tk(token.RETURN, "return")}
		if n.Kids[0] != nil {
			s.ReturnValue = b.expr(n.Kids[0])
		}
		return s
	case ir.If:
		s := &ast.IfStatement{Token: tk(token.IF, "if"), Condition: b.expr(n.Kids[0]), ThenBranch: b.stmt(n.Kids[1])}
		if n.Kids[2] != nil {
			s.ElseBranch = b.stmt(n.Kids[2])
		}
		return s
	case ir.While:
		return &ast.WhileStatement{Token: tk(token.WHILE, "while"), Condition: b.expr(n.Kids[0]), Body: b.stmt(n.Kids[1])}
	case ir.For:
		s := &ast.ForStatement{Token: tk(token.FOR, "for"), Body: b.stmt(n.Kids[3])}
		if in := n.Kids[0]; in != nil {
			if in.K == ir.Let {
				le := &ast.LetExpression{Token: tk(token.LET, "let"), Name: bIdent(in.Op)}
				if in.Kids[0] != nil {
					le.Value = b.expr(in.Kids[0])
				}
				s.Init = le
			} else {
				s.Init = b.expr(in)
			}
		}
		if n.Kids[1] != nil {
			s.Condition = b.expr(n.Kids[1])
		}
		if n.Kids[2] != nil {
			s.Update = b.expr(n.Kids[2])
		}
		return s
	case ir.Block:
		return b.block(n)
	case ir.ExprStmt:
		return &ast.ExpressionStatement{Expression: b.expr(n.Kids[0])}
	}
	panic(fmt.Sprintf("astBuilder: not a statement: %s", n.K))
}

func (b astBuilder) program(n *ir.Node) *ast.Program {
	p := &ast.Program{Statements: []ast.Statement{}}
	for _, s := range n.Kids {
		p.Statements = append(p.Statements, b.stmt(s))
	}
	return p
}
