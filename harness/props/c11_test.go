package props

import (
	"fmt"
	"os"
	"reflect"
	"runtime/debug"
	"strconv"
	"strings"
	"testing"
	"time"

	"github.com/xjslang/xjs/ast"
	"github.com/xjslang/xjs/parser"
	"github.com/xjslang/xjs/token"
	"pgregory.net/rapid"

	"verif/harness/evid"
	"verif/harness/gen"
	"verif/harness/layout"
	"verif/harness/reflex"
	"verif/harness/shape"
)

// C11 — parsing is total and its result obeys the error contract.

type c11Case struct {
	Src  []byte `json:"src"`
	Kind string `json:"kind,omitempty"`
}

type parseOutcome struct {
	prog   *ast.Program
	errs   []parser.ParserError
	err    error
	ctx    parser.ContextType
	inFn   bool
	panicV interface{}
	stack  string
}

// guardedParse runs one parse under recover and a watchdog.
func guardedParse(src string, m Mode, limit time.Duration) (out parseOutcome, hung bool) {
	done := make(chan parseOutcome, 1)
	go func() {
		var o parseOutcome
		defer func() {
			if r := recover(); r != nil {
				o.panicV = r
				o.stack = string(debug.Stack())
			}
			done <- o
		}()
		p := newParser(src, m)
		o.prog, o.err = p.ParseProgram()
		o.errs = p.Errors()
		o.ctx = p.CurrentContext()
		o.inFn = p.IsInFunction()
	}()
	select {
	case o := <-done:
		return o, false
	case <-time.After(limit):
		return parseOutcome{}, true
	}
}

// nilStatements walks the tree reflectively and reports the path of the first
// nil (also typed-nil) entry of a slice of statements.
func nilStatements(root interface{}) string {
	stmtType := reflect.TypeOf((*ast.Statement)(nil)).Elem()
	seen := map[uintptr]bool{}
	var walk func(v reflect.Value, path string) string
	walk = func(v reflect.Value, path string) string {
		switch v.Kind() {
		case reflect.Interface:
			if v.IsNil() {
				return ""
			}
			return walk(v.Elem(), path)
		case reflect.Ptr:
			if v.IsNil() {
				return ""
			}
			if seen[v.Pointer()] {
				return ""
			}
			seen[v.Pointer()] = true
			return walk(v.Elem(), path)
		case reflect.Struct:
			if v.Type() == reflect.TypeOf(token.Token{}) {
				return ""
			}
			for i := 0; i < v.NumField(); i++ {
				if !v.Type().Field(i).IsExported() {
					continue
				}
				if r := walk(v.Field(i), path+"."+v.Type().Field(i).Name); r != "" {
					return r
				}
			}
		case reflect.Slice:
			isStmts := v.Type().Elem() == stmtType
			for i := 0; i < v.Len(); i++ {
				el := v.Index(i)
				p := fmt.Sprintf("%s[%d]", path, i)
				if isStmts {
					if el.IsNil() {
						return p + " is nil"
					}
					inner := el.Elem()
					if inner.Kind() == reflect.Ptr && inner.IsNil() {
						return fmt.Sprintf("%s is a typed nil (%s)", p, inner.Type())
					}
				}
				if r := walk(el, p); r != "" {
					return r
				}
			}
		}
		return ""
	}
	return walk(reflect.ValueOf(root), "Program")
}

func safeCompile(p *ast.Program, c Cfg) (code string, perr interface{}, stack string) {
	defer func() {
		if r := recover(); r != nil {
			if iv, ok := r.(invariantViolation); ok {
				panic(iv)
			}
			perr = r
			stack = string(debug.Stack())
		}
	}()
	if c.Pretty && c.Indent != 99 && c.Indent != -1 && c.Indent != 3 {
		// "compiles without panicking" in every configuration; the reuse and
		// source-map invariants (three compilations each) in a sample of them
		return c.compiler().Compile(p).Code, nil, ""
	}
	return compile(p, c).Code, nil, ""
}

// singleEdits enumerates every single-lexeme edit of a text: deletion of each
// lexeme, its replacement by each entry of sweepLexemes, the insertion of each
// entry in front of it, each entry appended, and every truncation at a lexeme
// boundary.
func singleEdits(src string, visit func(what, text string)) {
	lx := scanAllLexemes(src)
	for i, l := range lx {
		end := l.off + l.len
		visit(fmt.Sprintf("truncation before lexeme %d", i), src[:l.off])
		visit(fmt.Sprintf("deleting lexeme %d", i), src[:l.off]+" "+src[end:])
		for _, w := range sweepLexemes {
			visit(fmt.Sprintf("replacing lexeme %d by %q", i, w), src[:l.off]+w+src[end:])
			visit(fmt.Sprintf("inserting %q before lexeme %d", w, i), src[:l.off]+w+" "+src[l.off:])
		}
	}
	for _, w := range sweepLexemes {
		visit(fmt.Sprintf("appending %q", w), src+" "+w)
	}
}

// sweepPrograms returns the valid programs whose single edits this shard
// enumerates: a fixed one (shard 0) plus n drawn with rapid's Example from
// seeds derived from VERIF_SEED and the shard number (deterministic, no
// shrinking needed: every edited text is reported as a case of its own).
func sweepPrograms(n int) []string {
	sh, _ := shard()
	var out []string
	if sh == 0 {
		out = append(out, "if (a) b; else c\nwhile (d) { e }\nfor (let i = 0; i < 3; i++) f(i)\nfunction g(h) { return {k: [h]} }\nlet s = 'x' + `y`\nx.y[z](1, -w)++")
	}
	base, _ := strconv.Atoi(os.Getenv("VERIF_SEED"))
	g := rapid.Custom(func(t *rapid.T) string {
		r := gen.R{T: t}
		sg := &gen.Syn{R: r, MaxDepth: 1 + r.Intn(2, "depth"), StmtDepth: r.Intn(3, "sdepth"), Tpl: true, NoScale: true}
		src, _ := layout.Source(r, sg.Program(3), layout.Options{Random: r.Bool("randlayout"), ASI: true})
		return src
	})
	for k := 0; k < n; k++ {
		out = append(out, g.Example(base*100003+sh*1009+k+1))
	}
	return out
}

func c11Exhaustive(rec *evid.Recorder, report func(c11Case)) {
	n := 8
	if thorough() {
		n = 150
	}
	for _, src := range sweepPrograms(n) {
		rec.Class("sweep:programs")
		singleEdits(src, func(what, text string) {
			rec.Class("sweep:edited-texts")
			report(c11Case{Src: []byte(text), Kind: "single-edit"})
		})
	}
	rec.Exhaustive("every single-lexeme edit (delete / replace by or insert each of 31 lexemes / truncate) of the swept programs")
}

func c11Check(c c11Case, rec *evid.Recorder) *Fail { return c11CheckText(c, rec) }

var sweepLexemes = []string{"(", ")", "{", "}", "[", "]", ",", ";", ":", ".", "=", "+", "-", "++", "!", "==", "+=", "let", "function", "if", "else", "while", "for", "return", "x", "1", "\"s\"", "`t`", "\"open", "@", "\n"}

type rawLexeme struct{ off, len int }

// scanAllLexemes: extents of all lexemes of a text, `;` included.
func scanAllLexemes(src string) (out []rawLexeme) {
	b := []byte(src)
	i := 0
	for i < len(b) {
		c := b[i]
		switch {
		case c == '/' && i+1 < len(b) && b[i+1] == '/':
			for i < len(b) && b[i] != '\n' {
				i++
			}
		case reflex.IsSpace(c):
			i++
		case c == '"' || c == '\'' || c == '`':
			e, _ := reflex.StringEnd(b, i)
			if e > len(b) {
				e = len(b)
			}
			out = append(out, rawLexeme{i, e - i})
			i = e
		case reflex.IsIdentPart(c):
			e := i
			for e < len(b) && (reflex.IsIdentPart(b[e]) || (b[e] == '.' && reflex.IsDigit(c) && e+1 < len(b) && reflex.IsDigit(b[e+1]))) {
				e++
			}
			out = append(out, rawLexeme{i, e - i})
			i = e
		default:
			n := len(reflex.OperatorAt(b, i))
			if n == 0 {
				n = 1
			}
			out = append(out, rawLexeme{i, n})
			i += n
		}
	}
	return out
}

func c11CheckText(c c11Case, rec *evid.Recorder) *Fail {
	src := string(c.Src)
	var toks []token.Token
	for _, m := range allModes {
		rec.Eval()
		o, hung := guardedParse(src, m, 20*time.Second)
		if hung {
			o, hung = guardedParse(src, m, 60*time.Second)
			if hung {
				return failf("ParseProgram did not return within 60 s (mode %+v)\nsrc %q", m, src).tag("hang")
			}
		}
		if o.panicV != nil {
			return failf("ParseProgram panicked (mode %+v): %v\nsrc %q\n%s", m, o.panicV, src, o.stack).tag("sut-panic")
		}
		if o.prog == nil {
			return failf("ParseProgram returned a nil program (mode %+v)\nsrc %q", m, src)
		}
		if (o.err != nil) != (len(o.errs) > 0) {
			return failf("error value %v but %d entries in Errors() (mode %+v)\nsrc %q", o.err, len(o.errs), m, src)
		}
		if w := nilStatements(o.prog); w != "" {
			return failf("statement list holds a nil entry: %s (mode %+v, %d errors)\nsrc %q", w, m, len(o.errs), src).tag("nil-statement")
		}
		if len(o.errs) > 0 {
			if toks == nil {
				toks = lexAll(src)
			}
			for i, e := range o.errs {
				found := false
				for _, t := range toks {
					if t.Start == e.Range.Start && t.End == e.Range.End {
						found = true
						break
					}
				}
				if !found {
					return failf("error %d %q has range %d:%d-%d:%d which is not the range of any token of the input (mode %+v)\nsrc %q", i, e.Message, e.Range.Start.Line, e.Range.Start.Column, e.Range.End.Line, e.Range.End.Column, m, src)
				}
			}
			if len(o.prog.Statements) > 0 {
				rec.NonTrivial(fmt.Sprintf("%+v|%s", m, src))
			}
			rec.Class("outcome:errors")
			continue
		}
		rec.Class("outcome:clean")
		if err := shape.CheckComplete(o.prog); err != nil {
			return failf("no error reported but the tree is incomplete: %v (mode %+v)\nsrc %q", err, m, src).tag("incomplete-tree")
		}
		for _, cfg := range allCfgs() {
			code, perr, st := safeCompile(o.prog, cfg)
			if perr != nil {
				return failf("Compile panicked in configuration %s on an error-free tree: %v (mode %+v)\nsrc %q\n%s", cfg, perr, m, src, st).tag("sut-panic")
			}
			if !cfg.Pretty && (code == "") != (len(o.prog.Statements) == 0) {
				return failf("compact output %q for a program with %d statements (mode %+v)\nsrc %q", code, len(o.prog.Statements), m, src)
			}
		}
		if len(o.prog.Statements) >= 3 {
			rec.NonTrivial(fmt.Sprintf("%+v|%s", m, src))
		}
	}
	rec.Sample(len(src), map[string]interface{}{"src": src, "kind": c.Kind})
	return nil
}

var mutLexemes = []string{"(", ")", "{", "}", "[", "]", ",", ";", ":", ".", "=", "+", "-", "++", "--", "!", "==", "&&", "let", "function", "if", "else", "while", "for", "return", "x", "1", "\"s\"", "`t`", "\"open", "`open", "@", "&", "\n", "// c\n", "0x", "1e+", "null", "true", "'", "\\"}

// mutateTokens applies 1-4 token-level mutations to a rendered valid program.
func mutateTokens(r gen.R, toks []*layout.Tok) string {
	type piece struct{ gap, text string }
	var ps []piece
	for _, t := range toks {
		if t.Kind == layout.EOF {
			ps = append(ps, piece{t.Gap, ""})
			continue
		}
		ps = append(ps, piece{t.Gap, t.Rendered})
	}
	n := 1 + r.Intn(4, "nmut")
	for k := 0; k < n && len(ps) > 1; k++ {
		i := r.Intn(len(ps)-1, "mutpos")
		switch r.Pick("mutkind", 3, 2, 2, 3, 3) {
		case 0: // delete
			ps = append(ps[:i], ps[i+1:]...)
		case 1: // duplicate
			ps = append(ps[:i+1], append([]piece{{" ", ps[i].text}}, ps[i+1:]...)...)
		case 2: // swap with neighbour
			if i+1 < len(ps)-1 {
				ps[i].text, ps[i+1].text = ps[i+1].text, ps[i].text
			}
		case 3: // replace
			ps[i].text = mutLexemes[r.Intn(len(mutLexemes), "mutlex")]
		default: // insert
			ps = append(ps[:i], append([]piece{{" ", mutLexemes[r.Intn(len(mutLexemes), "mutlex")]}}, ps[i:]...)...)
		}
	}
	var b strings.Builder
	for _, p := range ps {
		b.WriteString(p.gap)
		b.WriteString(p.text)
	}
	return b.String()
}

func c11Gen(t *rapid.T, rec *evid.Recorder) c11Case {
	r := gen.R{T: t}
	switch r.Pick("c11kind", 5, 2, 3) {
	case 0:
		g := &gen.Syn{R: r, MaxDepth: 1 + r.Intn(3, "depth"), StmtDepth: r.Intn(3, "sdepth"), RichStr: true, Tpl: true, MultiTpl: true}
		tree := g.Program(4)
		_, toks := layout.Source(r, tree, layout.Options{Random: true, ASI: true, Comments: true})
		rec.Class("gen:token-mutation")
		return c11Case{Src: []byte(mutateTokens(r, toks)), Kind: "token-mutation"}
	case 1:
		g := &gen.Syn{R: r, MaxDepth: 1 + r.Intn(3, "depth"), StmtDepth: r.Intn(3, "sdepth"), RichStr: true, Tpl: true, MultiTpl: true}
		tree := g.Program(4)
		src, _ := layout.Source(r, tree, layout.Options{Random: true, ASI: true, Comments: true})
		// truncation at a random byte
		if len(src) > 0 && r.Bool("truncate") {
			src = src[:r.Intn(len(src), "cut")]
		}
		rec.Class("gen:valid-or-truncated")
		return c11Case{Src: []byte(src), Kind: "valid-or-truncated"}
	default:
		c := c10Gen(t, rec)
		return c11Case{Src: c.Src, Kind: "lexeme-fragments"}
	}
}

var c11Witnesses = []c11Case{
	{Src: []byte("let")}, {Src: []byte("let x = ;")}, {Src: []byte("function (")}, {Src: []byte("{ let } a")}, {Src: []byte("if (a")}, {Src: []byte("a b")},
	{Src: []byte("for (;;")}, {Src: []byte("f(,)")}, {Src: []byte("x = {a:}")}, {Src: []byte("return return")}, {Src: []byte("((((")}, {Src: []byte("}")}, {Src: []byte("a.")}, {Src: []byte("a[")},
	{Src: []byte("function f() { let }")}, {Src: []byte("while (a) let")}, {Src: []byte("if (a) function")}, {Src: []byte("1e+")}, {Src: []byte("0x")}, {Src: []byte("99999999999999999999")},
}

func TestC11(t *testing.T) {
	run(t, &prop[c11Case]{ID: "C11", Gen: c11Gen, Check: c11Check, Exhaustive: c11Exhaustive, Witnesses: c11Witnesses})
}

func FuzzC11(f *testing.F) {
	for _, w := range c11Witnesses {
		f.Add(w.Src)
	}
	for _, w := range c10Witnesses {
		f.Add(w.Src)
	}
	addFixtures(f)
	known := loadKnown("C11")
	rec := evid.New("C11")
	f.Fuzz(func(t *testing.T, data []byte) {
		if len(data) > 1<<14 {
			return
		}
		c := c11Case{Src: data}
		if fl := safeCheck(&prop[c11Case]{Check: c11Check}, c, rec); fl != nil {
			if _, ok := suppressed(known, fl); ok {
				return
			}
			t.Fatalf("VIOLATION-CANDIDATE C11: %s", fl.Msg)
		}
	})
}
