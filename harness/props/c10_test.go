package props

import (
	"fmt"
	"os"
	"path/filepath"
	"strconv"
	"strings"
	"testing"
	"unicode/utf8"

	"github.com/xjslang/xjs/lexer"
	"github.com/xjslang/xjs/token"
	"pgregory.net/rapid"

	"verif/harness/evid"
	"verif/harness/gen"
	"verif/harness/reflex"
)

// C10 — lexing is total and tokens tile the source with exact positions.

type c10Case struct {
	Src []byte `json:"src"` // base64 in JSON
	// Frags, when present, are the whitespace-separated valid lexemes the text
	// was built from: the token stream must reproduce them one to one.
	Frags []string `json:"frags,omitempty"`
}

var punctType = map[string]token.Type{
	"=": token.ASSIGN, "+=": token.PLUS_ASSIGN, "-=": token.MINUS_ASSIGN, "+": token.PLUS, "-": token.MINUS, "*": token.MULTIPLY, "/": token.DIVIDE, "%": token.MODULO,
	"==": token.EQ, "!=": token.NOT_EQ, "<": token.LT, ">": token.GT, "<=": token.LTE, ">=": token.GTE, "&&": token.AND, "||": token.OR, "!": token.NOT,
	"++": token.INCREMENT, "--": token.DECREMENT, ",": token.COMMA, ";": token.SEMICOLON, ":": token.COLON, ".": token.DOT,
	"(": token.LPAREN, ")": token.RPAREN, "{": token.LBRACE, "}": token.RBRACE, "[": token.LBRACKET, "]": token.RBRACKET,
}

var keywordType = map[string]token.Type{"function": token.FUNCTION, "let": token.LET, "if": token.IF, "else": token.ELSE, "while": token.WHILE, "for": token.FOR, "return": token.RETURN, "true": token.TRUE, "false": token.FALSE, "null": token.NULL}

func posStr(p token.Position) string { return fmt.Sprintf("%d:%d", p.Line, p.Column) }

// c10Lex runs the lexer to EOF (bounded) and returns the tokens including EOF.
func c10Lex(src []byte) ([]token.Token, *lexer.Lexer, *Fail) {
	l := lexer.NewBuilder().Build(string(src))
	var toks []token.Token
	limit := len(src) + 2
	for i := 0; ; i++ {
		if i > limit {
			return toks, l, failf("no end-of-input token after %d NextToken() calls on %d bytes", i, len(src))
		}
		t := l.NextToken()
		toks = append(toks, t)
		if t.Type == token.EOF {
			return toks, l, nil
		}
	}
}

func c10Check(c c10Case, rec *evid.Recorder) *Fail {
	rec.Eval()
	src := c.Src
	toks, l, f := c10Lex(src)
	if f != nil {
		return f
	}
	lt := reflex.NewLineTable(src)
	prevEnd := 0
	lines := 0
	multiAfterNL := false
	for i, t := range toks {
		s := lt.Offset(t.Start.Line, t.Start.Column)
		if s < 0 || s > len(src) {
			return failf("token %d %v: start %s is not a position of the source (%d bytes)\nsrc %q", i, t, posStr(t.Start), len(src), src)
		}
		if s < prevEnd {
			return failf("token %d %v starts at offset %d, before the end (%d) of its predecessor: bytes consumed twice or start misplaced\nsrc %q", i, t, s, prevEnd, src)
		}
		atEnd := t.Type == token.EOF
		ok, hasNL := reflex.TriviaOnly(src[prevEnd:s], atEnd)
		if !ok {
			return failf("token %d %v: bytes %q between it and its predecessor are not white space/comments (skipped input)\nsrc %q", i, t, src[prevEnd:s], src)
		}
		if i > 0 || s > 0 {
			if t.AfterNewline != hasNL { // LF, CR LF and a lone CR are line breaks
				return failf("token %d %v: AfterNewline=%v but the gap %q %s a line break\nsrc %q", i, t, t.AfterNewline, src[prevEnd:s], map[bool]string{true: "contains", false: "does not contain"}[hasNL], src)
			}
		} else if t.AfterNewline {
			return failf("first token at offset 0 has AfterNewline set\nsrc %q", src)
		}
		// extent by class of the first byte
		var e int
		if t.Type == token.EOF {
			if s != len(src) {
				return failf("end-of-input token at offset %d (%s) but the source has %d bytes: rest %q never tokenised\nsrc %q", s, posStr(t.Start), len(src), src[s:], src)
			}
			if t.Literal != "" {
				return failf("end-of-input token carries literal %q", t.Literal)
			}
			e = s
		} else {
			if s >= len(src) {
				return failf("token %d %v starts at end of input", i, t)
			}
			b := src[s]
			switch {
			case reflex.IsIdentStart(b):
				e = s + len(t.Literal)
				if e > len(src) || string(src[s:e]) != t.Literal {
					return failf("token %d %v: literal is not the source slice at its start (%q)\nsrc %q", i, t, src[s:min(e, len(src))], src)
				}
				for k := s; k < e; k++ {
					if !reflex.IsIdentPart(src[k]) {
						return failf("token %d %v: identifier literal contains non-identifier byte", i, t)
					}
				}
				if e < len(src) && reflex.IsIdentPart(src[e]) {
					return failf("token %d %v: identifier not maximal, next byte %q continues it\nsrc %q", i, t, src[e], src)
				}
				want := token.IDENT
				if kt, ok := keywordType[t.Literal]; ok {
					want = kt
				}
				if t.Type != want {
					return failf("token %d %v: literal %q classified as type %d, want %d\nsrc %q", i, t, t.Literal, t.Type, want, src)
				}
			case reflex.IsDigit(b):
				e = s + len(t.Literal)
				if e > len(src) || string(src[s:e]) != t.Literal || len(t.Literal) == 0 {
					return failf("token %d %v: number literal is not the source slice at its start (%q)\nsrc %q", i, t, src[s:min(e, len(src))], src)
				}
				// a malformed number (`0x`, `1e+`) may also be reported as an illegal
				// token; that valid numbers are numbers is pinned by the Frags comparison
				// below and by C02/C07
				if t.Type != token.INT && t.Type != token.FLOAT && t.Type != token.ILLEGAL {
					return failf("token %d %v: digit-initial lexeme typed %d\nsrc %q", i, t, t.Type, src)
				}
				// (no maximality demand for malformed numbers such as `0b2`; well-formed
				// shapes are pinned by the Frags comparison below)
			case b == '"' || b == '\'':
				var term bool
				e, term = reflex.StringEnd(src, s)
				// a quoted string that runs into a raw line break is malformed JavaScript:
				// a lexer may carry on to the closing quote (as above) or end the -
				// illegal - token in front of the line break; the token's End tells which
				if t.Type == token.ILLEGAL {
					for k := s + 1; k < e; k++ {
						if src[k] == '\\' {
							k++
							if k+1 < e && src[k] == '\r' && src[k+1] == '\n' {
								k++ // an escaped CR LF is one line continuation
							}
							continue
						}
						if src[k] == '\n' || src[k] == '\r' {
							if eo := lt.Offset(t.End.Line, t.End.Column); eo == k-1 || eo == k {
								e, term = k, false
							}
							break
						}
					}
				}
				// an unterminated literal may be reported as a string or as an illegal token
				if t.Type != token.STRING && !(t.Type == token.ILLEGAL && !term) {
					return failf("token %d %v: quote-initial lexeme typed %d\nsrc %q", i, t, t.Type, src)
				}
			case b == '`':
				var term bool
				e, term = reflex.StringEnd(src, s)
				if t.Type != token.RAW_STRING && !(t.Type == token.ILLEGAL && !term) {
					return failf("token %d %v: backtick-initial lexeme typed %d\nsrc %q", i, t, t.Type, src)
				}
			default:
				if op := reflex.OperatorAt(src, s); op != "" {
					e = s + len(op)
					if t.Literal != op || t.Type != punctType[op] {
						return failf("token %d %v: source has operator %q at %s, token is type %d literal %q\nsrc %q", i, t, op, posStr(t.Start), t.Type, t.Literal, src)
					}
				} else {
					e = s + 1
					if t.Type != token.ILLEGAL {
						return failf("token %d %v: byte %q starts no lexeme; want an ILLEGAL token\nsrc %q", i, t, src[s], src)
					}
					// an illegal token is one byte - or, equally acceptable, the whole
					// well-formed UTF-8 sequence that starts there (the property fixes
					// the tiling, not the granularity of illegal input)
					if r, n := utf8.DecodeRune(src[s:]); r != utf8.RuneError && n > 1 && i+1 < len(toks) {
						// which of the two it is shows in where the next token starts
						if ns := lt.Offset(toks[i+1].Start.Line, toks[i+1].Start.Column); ns >= s+n {
							e = s + n
						}
					}
				}
			}
		}
		// End: on the last byte or immediately after it, inside the source
		eo := lt.Offset(t.End.Line, t.End.Column)
		if t.Type == token.EOF {
			if eo != s {
				return failf("end-of-input token: End %s differs from Start %s\nsrc %q", posStr(t.End), posStr(t.Start), src)
			}
		} else if eo < 0 || eo > len(src) || (eo != e-1 && eo != e) {
			return failf("token %d %v: End %s (offset %d) is neither on the last byte (%d) nor right after it (%d)\nsrc %q", i, t, posStr(t.End), eo, e-1, e, src)
		}
		if t.Start.Line > 0 && e-s > 1 && t.AfterNewline {
			multiAfterNL = true
		}
		lines = t.Start.Line
		prevEnd = e
	}
	// end-of-input is stable
	eof := toks[len(toks)-1]
	for k := 0; k < 3; k++ {
		t := l.NextToken()
		if t.Type != token.EOF || t.Start != eof.Start || t.End != eof.End {
			return failf("NextToken() call %d after end of input returned %v, first EOF was %v\nsrc %q", k+1, t, eof, src)
		}
	}
	if c.Frags != nil {
		if len(toks)-1 != len(c.Frags) {
			return failf("%d tokens for %d white-space separated lexemes %q\nsrc %q", len(toks)-1, len(c.Frags), c.Frags, src)
		}
		for i, fr := range c.Frags {
			t := toks[i]
			s := lt.Offset(t.Start.Line, t.Start.Column)
			if s+len(fr) > len(src) || string(src[s:s+len(fr)]) != fr {
				return failf("token %d %v does not start lexeme %q\nsrc %q", i, t, fr, src)
			}
		}
	}
	if len(toks) >= 6 && lines >= 1 && multiAfterNL {
		rec.NonTrivial(string(src))
	}
	if len(src) > 0 {
		rec.Sample(len(src), map[string]interface{}{"src": string(src), "tokens": len(toks)})
	}
	return nil
}

var c10Lexemes = []string{
	"a", "foo", "x1", "$", "_", "let", "function", "if", "else", "while", "for", "return", "true", "false", "null", "lettuce", "returned",
	"0", "7", "42", "3.14", "1e5", "2.5E-3", "1e+", "1e", "0x", "0x1F", "0b", "0b2", "0b101", "0o", "0o17", "1.5.2", "1.", "08", "00",
	"=", "+=", "-=", "+", "-", "*", "/", "%", "==", "!=", "<", ">", "<=", ">=", "&&", "||", "!", "++", "--", ",", ";", ":", ".", "(", ")", "{", "}", "[", "]",
	"&", "|", "===", "=>", "**", "<<", "!==", "+++", "---", "^", "~", "@", "#", "?", "\\",
	"\"s\"", "'t'", "\"a\\\"b\"", "'it\\'s'", "\"\\x41\"", "\"\\u0041\"", "\"\\u{1F600}\"", "\"\\n\"", "\"line\\\ncont\"", "`raw`", "`a\\`b`", "`multi\nline`", "`\\\\`",
	"\"unterminated", "'open", "`open", "\"\\", "\"\\x4", "\"\\u{12", "\"\\u12", "'\\", "`\\",
	"// c", "// c\n", "//", "//\n", "/ /", "/*x*/",
	" ", "  ", "\t", "\n", "\r\n", "\r", "\n\n",
	"\x00", "\xff", "\xc3\xa9", "\xe4\xb8\xad", "\xf0\x9f\x98\x80", "\x80", "\x7f", "\x01",
	// byte sequences that other tools treat specially at the start of a file or as line ends
	"\xef\xbb\xbf", "\xef\xbb", "\xfe\xff", "\xff\xfe", "\xe2\x80\xa8", "\xe2\x80\xa9", "\xc2\xa0", "\xc2\x85", "\x0b", "\x0c", "#!/usr/bin/env xjs\n", "<!--", "-->",
}

func c10Gen(t *rapid.T, rec *evid.Recorder) c10Case {
	r := gen.R{T: t}
	switch r.Pick("c10kind", 6, 3, 1) {
	case 0:
		// fragments concatenated with or without separators
		var b strings.Builder
		n := r.Intn(40, "nfrag")
		for i := 0; i < n; i++ {
			b.WriteString(c10Lexemes[r.Intn(len(c10Lexemes), "lexeme")])
			switch r.Pick("sep", 5, 3, 1, 1) {
			case 1:
				b.WriteByte(' ')
			case 2:
				b.WriteByte('\n')
			case 3:
				b.WriteString(" // t\n")
			}
		}
		rec.Class("gen:fragments")
		return c10Case{Src: []byte(b.String())}
	case 1:
		// valid lexemes separated by white space: token stream is known
		var b strings.Builder
		var frags []string
		n := r.Intn(30, "nfrag")
		for i := 0; i < n; i++ {
			var fr string
			switch r.Pick("valid", 4, 3, 3, 2, 1) {
			case 0:
				fr = r.Ident()
			case 1:
				fr = r.NumText()
			case 2:
				fr = reflex.Operators[r.Intn(len(reflex.Operators), "op")]
			case 3:
				s := r.RichStr(5)
				fr = s.Quote + s.Spelling() + s.Quote
			default:
				fr = []string{"let", "function", "if", "else", "while", "for", "return", "true", "false", "null"}[r.Intn(10, "kw")]
			}
			frags = append(frags, fr)
			b.WriteString(fr)
			b.WriteString([]string{" ", "\n", "\t", " \n ", "\r\n", " //x\n", "  "}[r.Intn(7, "ws")])
		}
		rec.Class("gen:valid-lexemes")
		return c10Case{Src: []byte(b.String()), Frags: frags}
	default:
		rec.Class("gen:random-bytes")
		bs := rapid.SliceOfN(rapid.Byte(), 0, 64).Draw(t, "bytes")
		return c10Case{Src: bs}
	}
}

var c10Witnesses = []c10Case{
	{Src: []byte("")}, {Src: []byte("a==b")}, {Src: []byte("a <= b\nc != d")}, {Src: []byte("x\x00y")}, {Src: []byte("\"abc")}, {Src: []byte("`abc")},
	{Src: []byte("a // c")}, {Src: []byte("a\r\nb")}, {Src: []byte("\n\n  foo")}, {Src: []byte("\"\\")}, {Src: []byte("a &&\n b||c")}, {Src: []byte("i++ + --j")},
	{Src: []byte("\xef\xbb\xbflet a = 1")}, {Src: []byte("\xef\xbb\xbf")}, {Src: []byte("#!/usr/bin/env xjs\nlet a")}, {Src: []byte("x = `one\ntwo` + y\nz")}, {Src: []byte("2e+x 1e; 10else")},
}

func TestC10(t *testing.T) {
	run(t, &prop[c10Case]{ID: "C10", Gen: c10Gen, Check: c10Check, Witnesses: c10Witnesses})
}

// parseFuzzFile decodes a go-fuzz corpus file holding one []byte value.
func parseFuzzFile(path string) ([]byte, error) {
	b, err := os.ReadFile(path)
	if err != nil {
		return nil, err
	}
	lines := strings.Split(string(b), "\n")
	if len(lines) < 2 || !strings.HasPrefix(lines[0], "go test fuzz v1") {
		return nil, fmt.Errorf("not a fuzz corpus file")
	}
	v := strings.TrimSpace(lines[1])
	if !strings.HasPrefix(v, "[]byte(") || !strings.HasSuffix(v, ")") {
		return nil, fmt.Errorf("unsupported corpus value %q", v)
	}
	s, err := strconv.Unquote(v[len("[]byte(") : len(v)-1])
	if err != nil {
		return nil, err
	}
	return []byte(s), nil
}

// addFixtures seeds a fuzz target with the repository's own sample programs.
func addFixtures(f *testing.F) {
	dir := os.Getenv("VERIF_REPO")
	if dir == "" {
		dir = "/repo"
	}
	files, _ := filepath.Glob(filepath.Join(dir, "testdata", "*.js"))
	for _, fn := range files {
		if b, err := os.ReadFile(fn); err == nil && len(b) < 1<<14 {
			f.Add(b)
		}
	}
}

func FuzzC10(f *testing.F) {
	for _, w := range c10Witnesses {
		f.Add(w.Src)
	}
	for _, lx := range c10Lexemes {
		f.Add([]byte(lx + " " + lx))
	}
	addFixtures(f)
	known := loadKnown("C10")
	rec := evid.New("C10")
	f.Fuzz(func(t *testing.T, data []byte) {
		if len(data) > 1<<16 {
			return
		}
		c := c10Case{Src: data}
		if fl := safeCheck(&prop[c10Case]{Check: c10Check}, c, rec); fl != nil {
			if _, ok := suppressed(known, fl); ok {
				return
			}
			t.Fatalf("VIOLATION-CANDIDATE C10: %s", fl.Msg)
		}
	})
}
