package props

import (
	"fmt"
	"testing"

	"github.com/xjslang/xjs/ast"
	"pgregory.net/rapid"

	"verif/harness/evid"
	"verif/harness/gen"
	"verif/harness/ir"
	"verif/harness/layout"
	"verif/harness/shape"
)

// C03 — printed code parses back to the tree it was printed from.

type c03Case struct {
	Tree *ir.Node `json:"tree"`          // programmatic tree (when Src is empty)
	Src  string   `json:"src,omitempty"` // or: source text whose parsed tree is printed
	// FromSrc: the tree comes from parsing Src even when Src is the empty text
	FromSrc bool `json:"from_src,omitempty"`
	// Trivia: leading trivia pattern for the synthesised tokens of a programmatic
	// tree (cyclic; 0 none, 1 comment, 2 line break, 3 blank line + comment)
	Trivia []int `json:"trivia,omitempty"`
}

var c03Cfgs = []Cfg{{}, {Pretty: true, Indent: 99}, {Pretty: true, Indent: -1, NoSemi: true}}

// decided reports whether the tree contains a parent/child operator pair for
// which parenthesisation or token separation has to be decided.
func c03Decided(n *ir.Node) bool {
	found := false
	isOp := func(k ir.Kind) bool {
		return k == ir.Binary || k == ir.Unary || k == ir.Postfix || k == ir.Assign || k == ir.Call || k == ir.Member || k == ir.Index
	}
	ir.Walk(n, func(x *ir.Node) {
		if !isOp(x.K) {
			return
		}
		for _, k := range x.Kids {
			if k != nil && isOp(k.K) {
				found = true
			}
		}
	})
	return found
}

func c03Check(c c03Case, rec *evid.Recorder) *Fail {
	var T *ast.Program
	var want *ir.Node
	if c.Src != "" || c.FromSrc {
		p, errs, err := parseX(c.Src, Mode{})
		if err != nil || len(errs) > 0 {
			rec.Discard("source rejected by xjs (C02's business)")
			return nil
		}
		T = p
		w, err := shape.FromXJS(p)
		if err != nil {
			return failf("parsed tree is incomplete: %v\nsrc %q", err, c.Src)
		}
		want = w
		rec.Class("origin:parser")
	} else {
		T = astBuilder{GroupLoose: true, Trivia: c.Trivia, n: new(int), noTrivia: returnSpines(c.Tree)}.program(c.Tree)
		if len(c.Trivia) > 0 {
			rec.Class("programmatic-tokens-with-trivia")
		}
		want = c.Tree
		rec.Class("origin:programmatic")
	}
	for _, cfg := range c03Cfgs {
		rec.Eval()
		out := compile(T, cfg).Code
		p2, errs, err := parseX(out, Mode{})
		if err != nil || len(errs) > 0 {
			msg := fmt.Sprint(err)
			if len(errs) > 0 {
				msg = fmt.Sprintf("%s at %d:%d", errs[0].Message, errs[0].Range.Start.Line, errs[0].Range.Start.Column)
			}
			return failf("[%s] printed code does not parse: %s\nprinted %q\ntree %s", cfg, msg, out, trunc(ir.Sexp(want), 500))
		}
		got, err := shape.FromXJS(p2)
		if err != nil {
			return failf("[%s] re-parsed tree incomplete: %v\nprinted %q", cfg, err, out)
		}
		if d := ir.Diff(c03Braced(want), got); d != "" {
			return failf("[%s] printed code parses to a different tree: %s\nprinted %q\nwant %s\ngot  %s", cfg, d, out, trunc(ir.Sexp(want), 500), trunc(ir.Sexp(got), 500))
		}
		out2 := compile(p2, cfg).Code
		if out2 != out {
			return failf("[%s] compiling the re-parsed output is not a fixed point:\nfirst  %q\nsecond %q", cfg, out, out2)
		}
		if c03Decided(want) {
			rec.NonTrivial(cfg.String() + "|" + ir.Sexp(want))
		}
	}
	rec.Sample(ir.Count(want), map[string]interface{}{"tree": ir.Sexp(want), "src": c.Src, "compact": compile(T, Cfg{}).Code})
	return nil
}

func c03Gen(t *rapid.T, rec *evid.Recorder) c03Case {
	r := gen.R{T: t}
	g := &gen.Syn{R: r, MaxDepth: 1 + r.Intn(6, "depth"), StmtDepth: r.Intn(3, "sdepth"), Tpl: true}
	fromParser := r.Intn(3, "fromparser") == 0
	g.Dangling = !fromParser
	g.RichStr = fromParser // escapes of every family, either quote style (re-quoted and re-encoded by the printer)
	tree := g.Program(3)
	if fromParser {
		opt := layout.Options{Random: true, ASI: true, Comments: true}
		if r.Bool("redundant") {
			opt.Redundant = 150
		}
		src, _ := layout.Source(r, tree, opt)
		return c03Case{Src: src, FromSrc: true}
	}
	c := c03Case{Tree: tree}
	if r.Intn(3, "trivia") == 0 {
		for i, n := 0, 3+r.Intn(7, "trivialen"); i < n; i++ {
			c.Trivia = append(c.Trivia, r.Pick("triviakind", 5, 2, 2, 1))
		}
	}
	return c
}

// c03Braced is the tree a printed programmatic tree must read back as: equal to
// the tree itself, except that a brace-less then-branch which ends in an `if`
// without `else`, under an `if` that has an `else`, comes back inside a block -
// the statement-level counterpart of an explicit grouping node, and the only way
// JavaScript has to keep that `else` with the outer `if`.  Trees from the parser
// never contain the shape, so for them this is the identity.
func c03Braced(n *ir.Node) *ir.Node {
	found := false
	ir.Walk(n, func(x *ir.Node) {
		if x.K == ir.If && len(x.Kids) == 3 && x.Kids[2] != nil && x.Kids[1] != nil && x.Kids[1].K != ir.Block && gen.EndsOpenIf(x.Kids[1]) {
			found = true
		}
	})
	if !found {
		return n
	}
	c := ir.Clone(n)
	ir.Walk(c, func(x *ir.Node) {
		if x.K == ir.If && len(x.Kids) == 3 && x.Kids[2] != nil && x.Kids[1] != nil && x.Kids[1].K != ir.Block && gen.EndsOpenIf(x.Kids[1]) {
			x.Kids[1] = ir.N(ir.Block, "", x.Kids[1])
		}
	})
	return c
}

// slot forms: a parent with one open operand slot, other operands leaves.
type c03Slot struct {
	name   string
	target bool // slot requires an assignment target (ident / member / index)
	callee bool // slot requires call-level-or-tighter
	mk     func(x *ir.Node) *ir.Node
}

func c03Slots() []c03Slot {
	var s []c03Slot
	for _, op := range gen.BinOps {
		op := op
		s = append(s, c03Slot{name: "bin" + op + "L", mk: func(x *ir.Node) *ir.Node { return ir.N(ir.Binary, op, x, id("r")) }})
		s = append(s, c03Slot{name: "bin" + op + "R", mk: func(x *ir.Node) *ir.Node { return ir.N(ir.Binary, op, id("l"), x) }})
	}
	for _, op := range gen.AssignOps {
		op := op
		s = append(s, c03Slot{name: "asg" + op + "V", mk: func(x *ir.Node) *ir.Node { return ir.N(ir.Assign, op, id("t"), x) }})
		s = append(s, c03Slot{name: "asg" + op + "T", target: true, mk: func(x *ir.Node) *ir.Node { return ir.N(ir.Assign, op, x, id("v")) }})
	}
	for _, op := range []string{"-", "!"} {
		op := op
		s = append(s, c03Slot{name: "un" + op, mk: func(x *ir.Node) *ir.Node { return ir.N(ir.Unary, op, x) }})
	}
	for _, op := range []string{"++", "--"} {
		op := op
		s = append(s, c03Slot{name: "pre" + op, target: true, mk: func(x *ir.Node) *ir.Node { return ir.N(ir.Unary, op, x) }})
		s = append(s, c03Slot{name: "post" + op, target: true, mk: func(x *ir.Node) *ir.Node { return ir.N(ir.Postfix, op, x) }})
	}
	s = append(s, c03Slot{name: "callee", callee: true, mk: func(x *ir.Node) *ir.Node { return ir.N(ir.Call, "", x, id("q")) }})
	s = append(s, c03Slot{name: "arg", mk: func(x *ir.Node) *ir.Node { return ir.N(ir.Call, "", id("f"), x) }})
	s = append(s, c03Slot{name: "object", callee: true, mk: func(x *ir.Node) *ir.Node { return ir.N(ir.Member, "p", x) }})
	s = append(s, c03Slot{name: "indexobj", callee: true, mk: func(x *ir.Node) *ir.Node { return ir.N(ir.Index, "", x, id("i")) }})
	s = append(s, c03Slot{name: "indexidx", mk: func(x *ir.Node) *ir.Node { return ir.N(ir.Index, "", id("o"), x) }})
	s = append(s, c03Slot{name: "element", mk: func(x *ir.Node) *ir.Node { return ir.N(ir.Array, "", x) }})
	return s
}

func isTarget(n *ir.Node) bool { return n.K == ir.Ident || n.K == ir.Member || n.K == ir.Index }

func c03Contexts(e *ir.Node) []*ir.Node {
	fbody := blk(ir.N(ir.Return, "", e))
	return []*ir.Node{
		prog(ir.N(ir.Let, "v", e)),
		prog(es(e)),
		prog(es(ir.N(ir.Call, "", id("f"), e))),
		prog(fdecl("g", fbody)),
		prog(ir.N(ir.If, "", e, blk(), nil)),
	}
}

// exhaustive spines of depth 2 and 3: parent(child(grandchild(leaf))) for
// every slot form at every level, leaves {identifier, number}, in five
// statement contexts; partitioned over the shards.
func c03Exhaustive(rec *evid.Recorder, report func(c03Case)) {
	sh, nsh := shard()
	slots := c03Slots()
	leaves := []*ir.Node{id("a"), ir.N(ir.Num, "1")}
	ok := func(s c03Slot, x *ir.Node) bool {
		if s.target {
			return isTarget(x)
		}
		if s.callee {
			return callLevel(x)
		}
		return true
	}
	i := 0
	emit := func(e *ir.Node) {
		i++
		if i%nsh != sh {
			return
		}
		for _, p := range c03Contexts(e) {
			report(c03Case{Tree: p})
		}
	}
	for _, leaf := range leaves {
		for _, s1 := range slots {
			if !ok(s1, leaf) {
				continue
			}
			d1 := s1.mk(leaf)
			emit(d1)
			for _, s2 := range slots {
				if !ok(s2, d1) {
					continue
				}
				d2 := s2.mk(d1)
				emit(d2)
				for _, s3 := range slots {
					if !ok(s3, d2) {
						continue
					}
					emit(s3.mk(d2))
				}
			}
		}
	}
	rec.ClassN("exhaustive-spines", i)
	rec.Exhaustive("all operand-slot spines of depth<=3 over 46 slot forms x leaves {identifier, number} x 5 statement contexts x 3 printer configurations")
}

var c03Witnesses = []c03Case{
	{Tree: prog(es(ir.N(ir.Binary, "-", id("a"), ir.N(ir.Unary, "-", id("b")))))},
	{Tree: prog(es(ir.N(ir.Binary, "+", id("a"), ir.N(ir.Unary, "++", id("b")))))},
	{Tree: prog(es(ir.N(ir.Unary, "-", ir.N(ir.Unary, "-", id("a")))))},
	{Tree: prog(es(ir.N(ir.Unary, "-", ir.N(ir.Unary, "--", id("a")))))},
	{Tree: prog(es(ir.N(ir.Call, "", ir.N(ir.Member, "toString", ir.N(ir.Num, "1")))))},
	{Tree: prog(ir.N(ir.If, "", id("a"), ir.N(ir.If, "", id("b"), es(id("c")), nil), es(id("d"))))},
	{Tree: prog(ir.N(ir.If, "", id("a"), ir.N(ir.While, "", id("w"), ir.N(ir.If, "", id("b"), es(id("c")), es(id("e")))), es(id("d"))))},
	{Src: "a - -b"}, {Src: "a + ++b"}, {Src: "- -a"}, {Src: "1 .toString()"}, {Src: "a-- - b"}, {Src: "a - --b"},
}

func TestC03(t *testing.T) {
	run(t, &prop[c03Case]{ID: "C03", Gen: c03Gen, Check: c03Check, Exhaustive: c03Exhaustive, Witnesses: c03Witnesses})
}
