package props

import (
	"os"

	"verif/harness/evid"
	"verif/harness/jsrun"
)

// Second engine (V8 through node, see jsrun/node.go).  Used by C01 and C07 on
// top of the goja comparison: the source and every distinct output text are run
// on V8 as well and must behave alike there too.  The comparison is made only
// when V8 and goja agree about the source (a disagreement about the source is
// an engine artefact, counted and skipped), and never when the engine is
// missing (VERIF_NODE=0 switches it off).

type v8Output struct{ Label, Code string }

func v8Enabled() bool { return os.Getenv("VERIF_NODE") != "0" }

func v8Pass(src string, ref jsrun.Result, outputs []v8Output, rec *evid.Recorder) *Fail {
	if !v8Enabled() {
		return nil
	}
	refN, ok := jsrun.NodeRun(src)
	if !ok {
		rec.Class("v8:unavailable")
		return nil
	}
	if refN.Completion == "interrupted" || refN.Completion == "engine-limitation" {
		rec.Discard("v8: source run " + refN.Completion)
		return nil
	}
	if !refN.Equal(ref) {
		rec.Discard("v8 and goja disagree about the source (engine artefact, not compared)")
		return nil
	}
	rec.Class("v8:source-agrees-with-goja")
	seen := map[string]bool{}
	for _, o := range outputs {
		if seen[o.Code] {
			continue
		}
		seen[o.Code] = true
		got, ok := jsrun.NodeRun(o.Code)
		if !ok {
			rec.Class("v8:unavailable")
			return nil
		}
		if got.Completion == "interrupted" || got.Completion == "engine-limitation" {
			rec.Discard("v8: output run " + got.Completion)
			continue
		}
		rec.Class("v8:outputs-compared")
		if !refN.Equal(got) {
			if refN.Completion == "RangeError" || got.Completion == "RangeError" {
				// stack depth is not a language-level observable
				rec.Discard("v8: stack-depth RangeError on one side")
				continue
			}
			if c01EscapedDirective(src, o.Code) {
				return failf("[%s] on V8: a string statement that is no directive in the source is emitted as the directive \"use strict\"\nsource: %s\noutput: %s %s\nsrc  %q\ncode %q", o.Label, refN, got, got.Detail, src, o.Code).tag("v8", "escaped-directive-becomes-directive")
			}
			return failf("[%s] on V8 (node %s) the compiled code behaves differently from the source\nsource: %s\noutput: %s %s\nsrc  %q\ncode %q", o.Label, trimNL(jsrun.NodeVersion()), refN, got, got.Detail, src, o.Code).tag("v8")
		}
	}
	return nil
}

func trimNL(s string) string {
	for len(s) > 0 && (s[len(s)-1] == '\n' || s[len(s)-1] == '\r') {
		s = s[:len(s)-1]
	}
	return s
}
