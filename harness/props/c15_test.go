package props

import (
	"fmt"
	"regexp"
	"strings"
	"testing"
	"unicode"

	"pgregory.net/rapid"

	"verif/harness/evid"
	"verif/harness/gen"
	"verif/harness/ir"
	"verif/harness/layout"
	"verif/harness/reflex"
)

// C15 — the pretty printer keeps statement-level comments; compact output has none.

type c15Comment struct {
	Marker   int    `json:"marker"`
	Text     string `json:"text"`  // full comment text after `//` (marker included)
	Text2    string `json:"text2"` // alternative content with the same marker
	Trailing bool   `json:"trailing,omitempty"`
	Next     string `json:"next"` // text of the token the comment precedes ("" = end of input)
	Depth    int    `json:"depth"`
}

type c15Boundary struct {
	Line, Col int  // position of the following token in Src
	Blank     bool // the gap holds an empty line
	Sibling   bool // boundary between two sibling statements
}

type c15Case struct {
	Src      string        `json:"src"`
	Src2     string        `json:"src2"`  // same program and layout, other comment contents
	Plain    string        `json:"plain"` // same program and layout, no comments
	Comments []c15Comment  `json:"comments"`
	Bounds   []c15Boundary `json:"bounds"`
	// Empty: the case is about comments without text (`//` alone or followed by
	// white space only): Src holds the program, no markers; only their number is checked.
	Empty bool `json:"empty,omitempty"`
}

// countComments counts `//` comment starts outside string literals.
func countComments(s string) int {
	n := 0
	b := []byte(s)
	for i := 0; i < len(b); {
		switch {
		case b[i] == '"' || b[i] == '\'' || b[i] == '`':
			i, _ = reflex.StringEnd(b, i)
		case b[i] == '/' && i+1 < len(b) && b[i+1] == '/':
			n++
			for i < len(b) && b[i] != '\n' {
				i++
			}
		default:
			i++
		}
	}
	return n
}

// c15Empty: every `//` comment - also one without text - appears exactly once.
func c15Empty(c c15Case, rec *evid.Recorder) *Fail {
	rec.Eval()
	p, errs, err := parseX(c.Src, Mode{})
	if err != nil || len(errs) > 0 {
		return failf("program with empty comments rejected: %v\nsrc %q", errs, c.Src)
	}
	want := countComments(c.Src)
	for _, cfg := range []Cfg{{Pretty: true, Indent: 99}, {Pretty: true, Indent: -1, NoSemi: true}} {
		out := compile(p, cfg).Code
		if got := countComments(out); got != want {
			return failf("[%s] the source has %d comments (some without text), the formatted output %d\nsrc %q\nformatted %q", cfg, want, got, c.Src, out).tag("empty-comment-dropped")
		}
	}
	if compact := compile(p, Cfg{}).Code; countComments(compact) != 0 {
		return failf("compact output contains a comment\ncompact %q", compact)
	}
	rec.Class("empty-comments")
	rec.NonTrivial("empty|" + c.Src)
	return nil
}

var c15Contents = []string{"", " plain words", " let x = 1;", " }", " if (", " { a: 1 }", " 'single' \"double\" `tick`", " // nested", " /* block */", "trailing   ", "   leading", " ünï 中", " ; ) ] ,", " return", "\ttab", " \\ backslash \\n", " function f() {"}

// a comment: `//`, an optional prefix without `#` (further slashes, `/*`, white space ...), the marker, the content
var markerRE = regexp.MustCompile(`//[^\n#]*#(\d+)#[^\n]*`)

func c15Check(c c15Case, rec *evid.Recorder) *Fail {
	if c.Empty {
		return c15Empty(c, rec)
	}
	rec.Eval()
	p, errs, err := parseX(c.Src, Mode{})
	if err != nil || len(errs) > 0 {
		return failf("decorated program rejected: %v\nsrc %q", errs, c.Src)
	}
	pPlain, errsP, errP := parseX(c.Plain, Mode{})
	if errP != nil || len(errsP) > 0 {
		return failf("undecorated program rejected: %v\nsrc %q", errsP, c.Plain).tag("harness-selfcheck")
	}
	// compact: no comment text, same as undecorated
	compact := compile(p, Cfg{}).Code
	if strings.Contains(compact, "#") && markerInText(compact) {
		return failf("compact output contains comment text\ncompact %q\nsrc %q", compact, c.Src)
	}
	if cp := compile(pPlain, Cfg{}).Code; cp != compact {
		return failf("comments alter the compact output\nwith    %q\nwithout %q\nsrc %q", compact, cp, c.Src)
	}
	srcToks := astTokens(p)
	// the same clauses with a source map requested (the printer takes different
	// paths when a mapper is attached), and with the same tree printed repeatedly
	for _, cfg := range []Cfg{{Pretty: true, Indent: 99}, {Pretty: true, Indent: -1, NoSemi: true}, {Pretty: true, Indent: 0}, {Pretty: true, Indent: 99, Map: true}, {Pretty: true, Indent: 4, NoSemi: true, Map: true}} {
		out := compile(p, cfg).Code
		found := markerRE.FindAllStringSubmatchIndex(out, -1)
		// 1. each marker exactly once, verbatim (modulo trailing spaces), in source order
		if len(found) != len(c.Comments) {
			seen := map[string]int{}
			for _, m := range found {
				seen[out[m[2]:m[3]]]++
			}
			for _, cm := range c.Comments {
				if seen[fmt.Sprint(cm.Marker)] != 1 {
					f := failf("[%s] comment #%d# (%q, before %q, depth %d) appears %d times in the formatted output\nformatted %q\nsrc %q", cfg, cm.Marker, cm.Text, cm.Next, cm.Depth, seen[fmt.Sprint(cm.Marker)], out, c.Src)
					return f
				}
			}
			return failf("[%s] %d comments in the formatted output, %d in the source\nformatted %q", cfg, len(found), len(c.Comments), out)
		}
		for i, m := range found {
			cm := c.Comments[i]
			got := strings.TrimRight(out[m[0]+2:m[1]], " \t\r")
			want := strings.TrimRight(cm.Text, " \t\r")
			if got != want {
				return failf("[%s] comment %d is %q in the formatted output, %q in the source (order or text changed)\nformatted %q\nsrc %q", cfg, i, got, want, out, c.Src)
			}
			// the next code token after the comment's line
			rest := out[m[1]:]
			for {
				rest = strings.TrimLeft(rest, " \t\r\n")
				if strings.HasPrefix(rest, "//") {
					if j := strings.IndexByte(rest, '\n'); j >= 0 {
						rest = rest[j:]
						continue
					}
					rest = ""
				}
				break
			}
			// parentheses the printer adds in front of the token (an integer literal
			// receiver is printed as `(1).x`) belong to the same statement
			if cm.Next != "" && cm.Next[0] != '(' {
				rest = strings.TrimLeft(rest, "(")
			}
			if cm.Next == "" {
				if rest != "" {
					return failf("[%s] comment #%d# stood before the end of the input but is followed by %q in the formatted output\nformatted %q", cfg, cm.Marker, trunc(rest, 30), out)
				}
			} else if cm.Next[0] == '"' || cm.Next[0] == '\'' {
				// strings are re-quoted: any quote will do
				if rest == "" || (rest[0] != '"' && rest[0] != '\'') {
					return failf("[%s] comment #%d# stood before string %s but precedes %q in the formatted output\nformatted %q", cfg, cm.Marker, cm.Next, trunc(rest, 30), out)
				}
			} else if cm.Next[0] >= '0' && cm.Next[0] <= '9' && len(rest) > 0 && rest[0] >= '0' && rest[0] <= '9' {
				// a numeric literal may be printed in another spelling of the same number
			} else if !strings.HasPrefix(rest, cm.Next) {
				return failf("[%s] comment #%d# stood before %q but precedes %q in the formatted output\nformatted %q\nsrc %q", cfg, cm.Marker, cm.Next, trunc(rest, 30), out, c.Src)
			}
		}
		// 1b. what stands in front of the comment is the end of the previous
		// statement (`;` or a brace) or nothing - not a piece of the statement
		// the comment belongs to (configurations that print every semicolon)
		if !cfg.NoSemi {
			var code strings.Builder // the output up to the comment, without the comments
			last := 0
			for i, m := range found {
				code.WriteString(out[last:m[0]])
				last = m[1]
				before := strings.TrimRight(code.String(), " \t\r\n")
				if before != "" && !strings.HasSuffix(before, ";") && !strings.HasSuffix(before, "{") && !strings.HasSuffix(before, "}") {
					return failf("[%s] comment #%d# stood at a statement boundary but follows %q in the formatted output: it is inside a statement\nformatted %q\nsrc %q", cfg, c.Comments[i].Marker, before[max(0, len(before)-20):], out, c.Src)
				}
			}
		}
		// 2. anchor: same token carries the comment in the re-parsed output
		p2, errs2, err2 := parseX(out, Mode{})
		if err2 != nil || len(errs2) > 0 {
			return failf("[%s] formatted output does not parse: %v\nformatted %q", cfg, errs2, out)
		}
		outToks := astTokens(p2)
		if len(outToks) != len(srcToks) {
			return failf("[%s] re-parsed formatted output has %d tokens in its tree, the source tree %d\nformatted %q", cfg, len(outToks), len(srcToks), out)
		}
		holder := func(toks []interface{}) {}
		_ = holder
		srcAt, outAt := map[string]int{}, map[string]int{}
		for i := range srcToks {
			for _, lc := range srcToks[i].LeadingComments {
				if m := markerRE.FindStringSubmatch("//" + lc); m != nil {
					srcAt[m[1]] = i
				}
			}
			for _, lc := range outToks[i].LeadingComments {
				if m := markerRE.FindStringSubmatch("//" + lc); m != nil {
					outAt[m[1]] = i
				}
			}
		}
		for k, i := range srcAt {
			if j, ok := outAt[k]; !ok || j != i {
				return failf("[%s] comment #%s# is attached to token %d (%q) in the source tree but to token %d in the re-parsed formatted output\nformatted %q", cfg, k, i, srcToks[i].Literal, j, out)
			}
		}
		// 3. blank-line separation between sibling statements
		outLines := strings.Split(out, "\n")
		for _, b := range c.Bounds {
			if !b.Sibling {
				continue
			}
			idx := -1
			for i, t := range srcToks {
				if t.Start.Line == b.Line && t.Start.Column == b.Col {
					idx = i
					break
				}
			}
			if idx < 0 {
				continue // the statement's first token is not stored in the tree (e.g. a call statement): not locatable
			}
			l := outToks[idx].Start.Line
			blank := false
			for k := l - 1; k >= 0 && k < len(outLines); k-- {
				tl := strings.TrimSpace(outLines[k])
				if tl == "" {
					blank = true
					break
				}
				if !strings.HasPrefix(tl, "//") {
					break
				}
			}
			if blank != b.Blank {
				return failf("[%s] blank-line separation before the statement at source %d:%d: source %v, formatted output %v\nformatted %q\nsrc %q", cfg, b.Line, b.Col, b.Blank, blank, out, c.Src)
			}
			rec.Class("blank-boundary-checked")
		}
		// 5. content independence
		p3, errs3, _ := parseX(c.Src2, Mode{})
		if len(errs3) > 0 {
			return failf("comment content changes whether the program parses: %v\nsrc2 %q", errs3, c.Src2)
		}
		out3 := compile(p3, cfg).Code
		if a, b := markerRE.ReplaceAllString(out, "//#"), markerRE.ReplaceAllString(out3, "//#"); a != b {
			return failf("[%s] comment content alters the code emitted around it\nwith contents A %q\nwith contents B %q", cfg, out, out3)
		}
	}
	depths := map[int]bool{}
	special := false
	for _, cm := range c.Comments {
		depths[cm.Depth] = true
		if cm.Trailing || cm.Next == "}" || cm.Next == "" || strings.ContainsAny(cm.Text, "{}();'\"`") {
			special = true
		}
	}
	if len(c.Comments) >= 3 && len(depths) >= 2 && special {
		rec.NonTrivial(c.Src)
	}
	rec.Sample(len(c.Src), map[string]interface{}{"src": c.Src})
	return nil
}

// c15Prefixes: what stands between `//` and the marker (mostly nothing).
var c15Prefixes = []string{"", "", "", "", "", "/", "//", "///////", " ", "   ", "\t", "/*", "*", "!", "-", " / "}

// c15Content draws the text of a comment: an entry of the pool, or words that
// end in a character drawn from several scripts (the last byte of its UTF-8
// form takes every continuation value) - never a Unicode space, which a printer
// may count as trailing white space.
func c15Content(r gen.R, label string) string {
	if r.Intn(5, label+"gen") > 0 {
		return c15Contents[r.Intn(len(c15Contents), label)]
	}
	ranges := [][2]int{{0xA1, 0xFF}, {0x100, 0x17F}, {0x391, 0x3C9}, {0x410, 0x44F}, {0x4E00, 0x4EFF}, {0x8C00, 0x8CFF}, {0x1F600, 0x1F64F}}
	rg := ranges[r.Intn(len(ranges), label+"range")]
	for {
		c := rune(rg[0] + r.Intn(rg[1]-rg[0]+1, label+"rune"))
		if !unicode.IsSpace(c) && unicode.IsPrint(c) {
			return []string{" voil", " ", " note ", ""}[r.Intn(4, label+"lead")] + string(c)
		}
	}
}

func markerInText(s string) bool { return regexp.MustCompile(`#\d+#`).MatchString(s) }

func c15Gen(t *rapid.T, rec *evid.Recorder) c15Case {
	r := gen.R{T: t}
	if r.Intn(12, "emptycomments") == 0 {
		// comments without text at statement boundaries
		g := &gen.Syn{R: r, MaxDepth: 1, StmtDepth: 1 + r.Intn(2, "sdepth"), NoScale: true}
		toks := layout.Tokens(r, g.Program(3), layout.Options{})
		n := 0
		src := layout.Render(layout.Fixed{}, toks, layout.Options{GapOverride: func(ch layout.Chooser, prev, next *layout.Tok) (string, bool) {
			boundary := (next.StmtStart && next.ListMember) || (next.Kind == layout.Punct && next.Role == layout.BlockClose) || next.Kind == layout.EOF
			if !boundary || prev == nil {
				return "", false
			}
			switch r.Intn(4, "emptykind") {
			case 0:
				n++
				return " //" + []string{"", " ", "  "}[r.Intn(3, "pad")] + "\n", true
			case 1:
				n++
				return "\n//\n", true
			case 2:
				n += 2
				return "\n// text\n//\n", true
			}
			return "\n", true
		}})
		if n > 0 {
			return c15Case{Src: src, Empty: true}
		}
	}
	g := &gen.Syn{R: r, MaxDepth: 1 + r.Intn(2, "depth"), StmtDepth: 1 + r.Intn(3, "sdepth")}
	tree := g.Program(5)
	toks := layout.Tokens(r, tree, layout.Options{})
	var c c15Case
	marker := 0
	// decorations are drawn once and replayed for the three renderings
	type deco struct {
		gapA, gapB, gapPlain string
	}
	decos := map[*layout.Tok]deco{}
	for i, tk := range toks {
		boundary := (tk.StmtStart && tk.ListMember) || (tk.Kind == layout.Punct && tk.Role == layout.BlockClose) || tk.Kind == layout.EOF
		if !boundary {
			continue
		}
		first := i == 0
		next := tk.Text
		depth := len(tk.Ctx)
		var a, b, pl strings.Builder
		blank := false
		hasComment := false
		if !first && r.Intn(4, "trailing") == 0 {
			marker++
			t1 := fmt.Sprintf("%s#%d#%s", c15Prefixes[r.Intn(len(c15Prefixes), "prefix")], marker, c15Content(r, "content"))
			t2 := fmt.Sprintf("%s#%d#%s", c15Prefixes[r.Intn(len(c15Prefixes), "prefix2")], marker, c15Content(r, "content2"))
			a.WriteString(" //" + t1)
			b.WriteString(" //" + t2)
			c.Comments = append(c.Comments, c15Comment{Marker: marker, Text: t1, Text2: t2, Trailing: true, Next: next, Depth: depth})
			rec.Class("comment:trailing")
			hasComment = true
		}
		nl := func() { a.WriteString("\n"); b.WriteString("\n"); pl.WriteString("\n") }
		if !first {
			if hasComment || r.Intn(5, "newline") > 0 {
				nl()
			}
		}
		for k, n := 0, r.Pick("nown", 5, 3, 2, 1); k < n; k++ {
			for j, m := 0, r.Pick("nblank", 6, 2, 1, 1); j < m; j++ {
				if a.Len() > 0 || first {
					nl()
					blank = blank || !first || a.Len() > 1
				}
			}
			if !first && !strings.HasSuffix(a.String(), "\n") {
				nl()
			}
			marker++
			t1 := fmt.Sprintf("%s#%d#%s", c15Prefixes[r.Intn(len(c15Prefixes), "prefix")], marker, c15Content(r, "content"))
			t2 := fmt.Sprintf("%s#%d#%s", c15Prefixes[r.Intn(len(c15Prefixes), "prefix2")], marker, c15Content(r, "content2"))
			ind := strings.Repeat(" ", r.Intn(5, "indent"))
			a.WriteString(ind + "//" + t1 + "\n")
			b.WriteString(ind + "//" + t2 + "\n")
			pl.WriteString("\n")
			c.Comments = append(c.Comments, c15Comment{Marker: marker, Text: t1, Text2: t2, Next: next, Depth: depth})
			switch {
			case tk.Kind == layout.EOF:
				rec.Class("comment:before-eof")
			case tk.Role == layout.BlockClose:
				rec.Class("comment:before-closing-brace")
			default:
				rec.Class("comment:before-statement")
			}
		}
		for j, m := 0, r.Pick("nblank2", 6, 2, 1); j < m; j++ {
			if strings.HasSuffix(a.String(), "\n") {
				nl()
				blank = true
			}
		}
		ind := strings.Repeat(" ", r.Intn(4, "indent"))
		a.WriteString(ind)
		b.WriteString(ind)
		pl.WriteString(ind)
		decos[tk] = deco{a.String(), b.String(), pl.String()}
		_ = blank
	}
	render := func(which int) string {
		opt := layout.Options{GapOverride: func(ch layout.Chooser, prev, next *layout.Tok) (string, bool) {
			d, ok := decos[next]
			if !ok {
				return "", false
			}
			g := []string{d.gapA, d.gapB, d.gapPlain}[which]
			if prev != nil && g == "" && next.Kind != layout.EOF {
				g = " "
			}
			return g, true
		}}
		return layout.Render(layout.Fixed{}, toks, opt)
	}
	c.Src = render(0)
	// boundaries (positions from the first rendering)
	for i, tk := range toks {
		if d, ok := decos[tk]; ok && tk.StmtStart && tk.ListMember && i > 0 {
			// sibling: the previous boundary-relevant token is not an opening brace
			prev := prevRendered(toks, i)
			sib := prev != nil && !(prev.Role == layout.BlockOpen)
			blank := emptyLineIn(d.gapA)
			c.Bounds = append(c.Bounds, c15Boundary{Line: tk.Line, Col: tk.Col, Blank: blank, Sibling: sib})
		}
	}
	c.Src2 = render(1)
	c.Plain = render(2)
	if r.Intn(4, "crlf") == 0 {
		// a file with Windows line ends (line and column of every token stay the same)
		c.Src = strings.ReplaceAll(c.Src, "\n", "\r\n")
		c.Src2 = strings.ReplaceAll(c.Src2, "\n", "\r\n")
		c.Plain = strings.ReplaceAll(c.Plain, "\n", "\r\n")
		rec.Class("layout:crlf")
	}
	return c
}

// emptyLineIn reports whether a gap contains a line that is empty or blank.
func emptyLineIn(gap string) bool {
	lines := strings.Split(gap, "\n")
	for i := 1; i < len(lines)-1; i++ {
		if strings.TrimSpace(lines[i]) == "" {
			return true
		}
	}
	return false
}

var c15Witnesses = []c15Case{}

func TestC15(t *testing.T) {
	run(t, &prop[c15Case]{ID: "C15", Gen: c15Gen, Check: c15Check, Witnesses: c15Witnesses})
}

var _ = ir.Sexp
