package props

import (
	"fmt"
	"strings"
	"testing"

	"github.com/xjslang/xjs/ast"
	"pgregory.net/rapid"

	"verif/harness/evid"
	"verif/harness/gen"
	"verif/harness/ir"
	"verif/harness/layout"
	"verif/harness/reflex"
	"verif/harness/shape"
)

// C06 — pretty printing changes layout only, and is stable.

type c06Case struct {
	Src string `json:"src"`
}

func tplValues(p *ast.Program) []string {
	var out []string
	var walkE func(e ast.Expression)
	var walkS func(s ast.Statement)
	walkE = func(e ast.Expression) {
		if isNil(e) {
			return
		}
		switch v := e.(type) {
		case *ast.MultiStringLiteral:
			out = append(out, v.Value)
		case *ast.StringLiteral:
			out = append(out, "S:"+v.Value)
		case *ast.GroupedExpression:
			walkE(v.Expression)
		case *ast.UnaryExpression:
			walkE(v.Right)
		case *ast.PostfixExpression:
			walkE(v.Left)
		case *ast.BinaryExpression:
			walkE(v.Left)
			walkE(v.Right)
		case *ast.AssignmentExpression:
			walkE(v.Left)
			walkE(v.Value)
		case *ast.CompoundAssignmentExpression:
			walkE(v.Left)
			walkE(v.Value)
		case *ast.CallExpression:
			walkE(v.Function)
			for _, a := range v.Arguments {
				walkE(a)
			}
		case *ast.MemberExpression:
			walkE(v.Object)
			walkE(v.Property)
		case *ast.ArrayLiteral:
			for _, a := range v.Elements {
				walkE(a)
			}
		case *ast.ObjectLiteral:
			for _, p := range v.Properties {
				walkE(p.Key)
				walkE(p.Value)
			}
		case *ast.FunctionExpression:
			walkS(v.Body)
		case *ast.LetExpression:
			walkE(v.Value)
		}
	}
	walkS = func(s ast.Statement) {
		if isNil(s) {
			return
		}
		switch v := s.(type) {
		case *ast.LetStatement:
			walkE(v.Value)
		case *ast.ReturnStatement:
			walkE(v.ReturnValue)
		case *ast.ExpressionStatement:
			walkE(v.Expression)
		case *ast.FunctionDeclaration:
			walkS(v.Body)
		case *ast.BlockStatement:
			if v == nil {
				return
			}
			for _, x := range v.Statements {
				walkS(x)
			}
		case *ast.IfStatement:
			walkE(v.Condition)
			walkS(v.ThenBranch)
			walkS(v.ElseBranch)
		case *ast.WhileStatement:
			walkE(v.Condition)
			walkS(v.Body)
		case *ast.ForStatement:
			walkE(v.Init)
			walkE(v.Condition)
			walkE(v.Update)
			walkS(v.Body)
		}
	}
	for _, s := range p.Statements {
		walkS(s)
	}
	return out
}

func isNil(v interface{}) bool {
	if v == nil {
		return true
	}
	switch x := v.(type) {
	case *ast.BlockStatement:
		return x == nil
	}
	return false
}

// stripIndent removes leading blanks/tabs from every line that does not start
// inside a literal.
func stripIndent(code string) []string {
	inside := reflex.LiteralInterior(code)
	lines := strings.Split(code, "\n")
	for i, l := range lines {
		if !inside[i] {
			lines[i] = strings.TrimLeft(l, " \t")
		}
	}
	return lines
}

// semiDiff checks that off is on with some `;` deleted, each of them a
// statement terminator (followed by end of line, a comment, `}` or the end).
func semiDiff(on, off string) (deleted int, problem string) {
	i, j := 0, 0
	for i < len(on) {
		if j < len(off) && on[i] == off[j] {
			i++
			j++
			continue
		}
		if on[i] != ';' {
			return deleted, fmt.Sprintf("texts differ at byte %d by something other than a deleted `;`: on %q / off %q", i, trunc(on[i:], 30), trunc(off[min(j, len(off)):], 30))
		}
		rest := strings.TrimLeft(on[i+1:], " \t")
		if !(rest == "" || rest[0] == '\n' || strings.HasPrefix(rest, "//") || rest[0] == '}') {
			return deleted, fmt.Sprintf("deleted `;` at byte %d is not a statement terminator (followed by %q)", i, trunc(rest, 20))
		}
		deleted++
		i++
	}
	if j != len(off) {
		return deleted, fmt.Sprintf("semicolon-free text has extra tail %q", trunc(off[j:], 30))
	}
	return deleted, ""
}

func c06Check(c c06Case, rec *evid.Recorder) *Fail {
	p, errs, err := parseX(c.Src, Mode{})
	if err != nil || len(errs) > 0 {
		rec.Discard("source rejected by xjs (C02's business)")
		return nil
	}
	compact := compile(p, Cfg{}).Code
	want, err := parseShape(compact)
	if err != nil {
		rec.Discard("compact output does not parse back (C03's business)")
		return nil
	}
	p0, _, _ := parseX(compact, Mode{})
	wantTpl := tplValues(p0)
	wantJS, jsErr := shape.ParseJS(compact)
	outs := map[Cfg]string{}
	for _, cfg := range prettyCfgs() {
		rec.Eval()
		out := compile(p, cfg).Code
		outs[cfg] = out
		p2, errs2, err2 := parseX(out, Mode{})
		if err2 != nil || len(errs2) > 0 {
			return failf("[%s] formatted output does not parse: %v\nformatted %q\nsrc %q", cfg, err2, out, c.Src)
		}
		got, err := shape.FromXJS(p2)
		if err != nil {
			return failf("[%s] formatted output parses to an incomplete tree: %v\nformatted %q", cfg, err, out)
		}
		if d := ir.Diff(want, got); d != "" {
			return failf("[%s] formatted output parses to a different tree than the compact output: %s\nformatted %q\ncompact %q", cfg, d, out, compact)
		}
		if gotTpl := tplValues(p2); strings.Join(gotTpl, "\x00") != strings.Join(wantTpl, "\x00") {
			return failf("[%s] literal text differs between formatted and compact output:\nformatted literals %q\ncompact literals   %q\nformatted %q", cfg, gotTpl, wantTpl, out).tag("literal-altered-by-formatting")
		}
		if jsErr == nil {
			gotJS, err := shape.ParseJS(out)
			if err != nil {
				if !strings.Contains(err.Error(), "limitation") {
					return failf("[%s] formatted output is not valid JavaScript although the compact output is: %v\nformatted %q\ncompact %q", cfg, err, out, compact)
				}
			} else if d := ir.Diff(ir.NormRel(wantJS), ir.NormRel(gotJS)); d != "" {
				return failf("[%s] a JavaScript parser reads the formatted output differently from the compact output: %s\nformatted %q\ncompact %q", cfg, d, out, compact)
			}
		}
		// idempotence
		again := compile(p2, cfg).Code
		if again != out {
			return failf("[%s] formatting the formatted output changes it:\nfirst  %q\nsecond %q\nsrc %q", cfg, out, again, c.Src)
		}
	}
	// indent independence, per semicolon setting
	for _, nosemi := range []bool{false, true} {
		base := stripIndent(outs[Cfg{Pretty: true, Indent: 2, NoSemi: nosemi}])
		for ind := -1; ind <= 8; ind++ {
			o := outs[Cfg{Pretty: true, Indent: ind, NoSemi: nosemi}]
			ls := stripIndent(o)
			if len(ls) != len(base) {
				return failf("indent unit %d changes the number of lines (%d vs %d)\n%q\nvs\n%q", ind, len(ls), len(base), o, outs[Cfg{Pretty: true, Indent: 2, NoSemi: nosemi}])
			}
			for i := range ls {
				if ls[i] != base[i] {
					return failf("indent unit %d changes more than leading white space on line %d: %q vs %q\n%q", ind, i, ls[i], base[i], o)
				}
			}
		}
	}
	// semicolon option
	for ind := -1; ind <= 8; ind++ {
		on, off := outs[Cfg{Pretty: true, Indent: ind}], outs[Cfg{Pretty: true, Indent: ind, NoSemi: true}]
		n, problem := semiDiff(on, off)
		if problem != "" {
			return failf("WithSemi(false) [indent %d]: %s\non  %q\noff %q", ind, problem, on, off)
		}
		simple := 0
		ir.Walk(want, func(x *ir.Node) {
			if x.K == ir.ExprStmt || x.K == ir.Return || (x.K == ir.Let) {
				simple++
			}
		})
		if n > simple {
			return failf("WithSemi(false) deleted %d semicolons but the program has only %d simple statements", n, simple)
		}
	}
	// non-triviality
	nested, feature := false, false
	ir.Walk(want, func(x *ir.Node) {
		if x.K == ir.Block || x.K == ir.Func || x.K == ir.FuncDecl {
			nested = true
		}
		if (x.K == ir.If || x.K == ir.While || x.K == ir.For) && x.Kids[len(x.Kids)-1] != nil {
			for _, b := range x.Kids[1:] {
				if b != nil && ir.IsStmt(b.K) && b.K != ir.Block {
					feature = true
				}
			}
		}
	})
	if strings.Contains(c.Src, "//") || strings.Contains(c.Src, "\n\n") {
		feature = true
	}
	for _, v := range wantTpl {
		if strings.Contains(v, "\n") {
			feature = true
		}
	}
	if nested && feature {
		rec.NonTrivial(c.Src)
	}
	rec.Sample(len(c.Src), map[string]interface{}{"src": c.Src, "pretty": outs[Cfg{Pretty: true, Indent: 2}]})
	return nil
}

func c06Gen(t *rapid.T, rec *evid.Recorder) c06Case {
	r := gen.R{T: t}
	g := &gen.Syn{R: r, MaxDepth: 1 + r.Intn(3, "depth"), StmtDepth: 1 + r.Intn(3, "sdepth"), RichStr: true, Tpl: true, MultiTpl: true}
	tree := g.Program(5)
	opt := layout.Options{Random: true, ASI: true, Comments: true, CRLF: r.Intn(6, "crlf") == 0}
	if r.Intn(3, "redundant") == 0 {
		opt.Redundant = 100
	}
	src, toks := layout.Source(r, tree, opt)
	for k := range layoutFeatures(src, toks) {
		rec.Class("layout:" + k)
	}
	return c06Case{Src: src}
}

var c06Witnesses = []c06Case{
	{Src: "a;(b)"}, {Src: "a;[b]"}, {Src: "a;-b"}, {Src: "a;`t`"}, {Src: "if (a) b; else c"}, {Src: "if (a) b; else if (c) d; else e"},
	{Src: "let s = `a  \n  b`;"}, {Src: "f(function(){ return 1 }, 2)"}, {Src: "x = {a: 1, b: function(){ g() }}"}, {Src: "while (a) if (b) c; else d"},
	{Src: "// head\nlet a = 1 // trailing\n\n\n// own line\nlet b = 2\n// tail"}, {Src: "a = (b // c\n + d)"},
}

func TestC06(t *testing.T) {
	run(t, &prop[c06Case]{ID: "C06", Gen: c06Gen, Check: c06Check, Witnesses: c06Witnesses})
}
