package props

import (
	"encoding/json"
	"fmt"
	"os"
	"testing"

	"verif/harness/ir"
)

func id(s string) *ir.Node            { return ir.N(ir.Ident, s) }
func es(e *ir.Node) *ir.Node          { return ir.N(ir.ExprStmt, "", e) }
func prog(stmts ...*ir.Node) *ir.Node { return ir.N(ir.Program, "", stmts...) }
func blk(stmts ...*ir.Node) *ir.Node {
	b := ir.N(ir.Block, "", stmts...)
	if b.Kids == nil {
		b.Kids = []*ir.Node{}
	}
	return b
}
func fdecl(name string, body *ir.Node) *ir.Node {
	return &ir.Node{K: ir.FuncDecl, Op: name, Params: []string{}, Kids: []*ir.Node{body}}
}

// namedWitnesses are the minimal inputs of defects found (and fixed) on the
// original tree; `VERIF_DUMP=1 go test -run TestWitnessJSON` prints them in
// the JSON form used by known_findings.json.
var namedWitnesses = map[string]interface{}{
	"C02/return-linebreak":                        c02Case{Tree: prog(fdecl("f", blk(ir.N(ir.Return, "", nil), es(id("a"))))), Srcs: []string{"function f(){return\na}"}},
	"C02/linebreak-incdec":                        c02Case{Tree: prog(es(id("a")), es(ir.N(ir.Unary, "++", id("b")))), Srcs: []string{"a\n++b"}},
	"C02/template-backslash":                      c02Case{Tree: prog(ir.N(ir.Let, "a", ir.N(ir.Tpl, "\\\\")), es(id("a"))), Srcs: []string{"let a=`\\\\`;a;"}},
	"C02/nested-postfix-then-linebreak":           c02Case{Tree: prog(es(ir.N(ir.Assign, "=", id("x"), ir.N(ir.Postfix, "++", id("a")))), es(id("b"))), Srcs: []string{"x=a++\n(b)"}},
	"C10/eof-drift":                               c10Case{Src: []byte("")},
	"C10/two-char-start":                          c10Case{Src: []byte("a==b")},
	"C10/nul-is-eof":                              c10Case{Src: []byte("x\x00y")},
	"C11/typed-nil-stmt":                          c11Case{Src: []byte("let")},
	"C03/sign-fusion":                             c03Case{Tree: prog(es(ir.N(ir.Binary, "-", id("a"), ir.N(ir.Unary, "-", id("b")))))},
	"C03/stmt-start-literal":                      c03Case{Tree: prog(es(ir.N(ir.Object, "")))},
	"C03/printer-paren-indent":                    c03Case{Tree: prog(ir.N(ir.Let, "a", ir.N(ir.Binary, "||", id("a"), ir.N(ir.Binary, "||", id("a"), &ir.Node{K: ir.Func, Params: []string{}, Kids: []*ir.Node{blk()}}))))},
	"C06/nosemi-hazard":                           c06Case{Src: "a;(b)\nif (a) b; else c"},
	"C06/eof-comment-trailing-tab":                c06Case{Src: "let a //\t\n"},
	"C06/crlf-comment-cr":                         c06Case{Src: "let a=1;if(a){let b=a;} //\r\n"},
	"C08/crlf-comment-map-lines":                  c08Case{Src: "for(let a;;a) //c\r\n//c\r\n{}"},
	"C06/template-trailing-space":                 c06Case{Src: "let s = `a  \n  b`;"},
	"C01/integer-member":                          c01Case{Src: "print(1 .toString())"},
	"C07/string-requote":                          c07Case{Lits: []c07Lit{{Src: "'say \"hi\"'"}, {Src: "'\\x22'"}, {Src: "'\\x5C'"}, {Src: "'\\x0A'"}, {Src: "'\\xE9'"}, {Src: "'\\uD83D'"}}},
	"C05/level1-infix-never-applied":              c05Case{Ops: []c05Op{{Lexeme: "@", Role: "infix", Level: 1}}, Toks: []string{"x", "@", "y"}},
	"C08/pretty-map-positions":                    c08Case{Src: "\n// c\nlet a = b == c\nfoo(a, b)"},
	"C12/unterminated-literal":                    c12Of("", "", "let", " stmt", " ", "a", "", "", "=", "", "", "\"\"", "str", "", ";", "term"),
	"C12/invalid-target-accepted":                 c12Of("delete#2", "", "a", " stmt", "", "||", "", "", "a", "", "", "++", "", "", "", "term", "\n", "0", " stmt", "", "", "term"),
	"C12/postfix-result-continued":                c12Of("delete#2", "", "a", " stmt", "", "++", "", "", ";", "term", "", "(", " open stmt", "", "a", "", "", ")", " close", "", ";", "term"),
	"C12/non-identifier-member-property-accepted": c12Of("delete#2", "", "a", " stmt", "", ".", "", "", "b", "", "", "(", " open", "", "c", "", "", ")", " close", "", ";", "term"),
	"C12/return-outside-function-accepted":        c12Of("delete#0", "", "function", " stmt", " ", "a", "", "", "(", " open", "", ")", " close", "\n", "{", " open", "", "return", " stmt", "", ";", "term", "", "}", " close"),
	"C12/declaration-as-body-accepted":            c12Of("delete#4", "", "while", " stmt", "", "(", " open", "", "a", "", "", ")", " close", "", "a", " stmt", " ", "", "term", "\n", "let", " stmt", " ", "a", "", "", "", "term"),
	"C15/empty-comment-dropped":                   c15Case{Src: "let a;\n//\nlet b; //\n", Empty: true},
	"C15/comment-inside-added-parenthesis":        c15Case{Src: "//#1# x\n0 .n0(); let n0;", Src2: "//#1# y\n0 .n0(); let n0;", Plain: "\n0 .n0(); let n0;", Comments: []c15Comment{{Marker: 1, Text: "#1# x", Text2: "#1# y", Next: "0"}}},
	"C15/eof-comments-dropped":                    c15Case{Src: "let a; //#1# x\n//#2# y\n", Src2: "let a; //#1# p\n//#2# q\n", Plain: "let a;\n\n", Comments: []c15Comment{{Marker: 1, Text: "#1# x", Text2: "#1# p", Trailing: true, Next: ""}, {Marker: 2, Text: "#2# y", Text2: "#2# q", Next: ""}}},
	"C02/lone-cr-line-terminator":                 c02Case{Tree: prog(ir.N(ir.Let, "a", id("b")), ir.N(ir.Let, "c", id("d")), fdecl("f", blk(ir.N(ir.Return, "", nil), es(id("e"))))), Srcs: []string{"let a=b \rlet c=d\rfunction f(){return\re}", "let a=b;// x\rlet c=d;function f(){return;e}"}},
	"C03/dangling-else":                           c03Case{Tree: prog(ir.N(ir.If, "", id("a"), ir.N(ir.If, "", id("b"), es(id("c")), nil), es(id("d"))))},
	"C01/escaped-directive-becomes-directive":     c01Case{Src: "'use\\x20strict'; x = 1; print(x)"},
	"C01/html-comment-opener":                     c01Case{Src: "let a = 1; let b = 2; print(a < !--b, b)"},
	"C07/escaped-digit":                           c07Case{Lits: []c07Lit{{Src: "\"\\0\\u{30}\""}}},
}

func TestWitnessJSON(t *testing.T) {
	if os.Getenv("VERIF_DUMP") == "" {
		t.Skip()
	}
	for k, v := range namedWitnesses {
		b, _ := json.Marshal(v)
		fmt.Printf("WITNESS %s %s\n", k, b)
	}
}
