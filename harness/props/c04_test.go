package props

import (
	"fmt"
	"reflect"
	"testing"

	"github.com/xjslang/xjs/ast"
	"github.com/xjslang/xjs/lexer"
	"github.com/xjslang/xjs/parser"
	"github.com/xjslang/xjs/token"
	"pgregory.net/rapid"

	"verif/harness/evid"
	"verif/harness/gen"
	"verif/harness/layout"
	"verif/harness/reflex"
)

// C04 — plugin interception is transparent, ordered and re-entrant.

type c04Icpt struct {
	Kind   string `json:"kind"` // tok | stmt | expr | expr-re | stmt-re
	Plugin bool   `json:"plugin,omitempty"`
}

type c04Case struct {
	Src       string    `json:"src"`
	Valid     bool      `json:"valid"`
	Chain     []c04Icpt `json:"chain"`
	StmtSteps [][2]int  `json:"stmt_steps,omitempty"` // predicted (line, col) of each statement step
	ExprSteps [][2]int  `json:"expr_steps,omitempty"`
	// ExprCore: the expression positions that hang directly on a statement
	// (initialiser, expression statement, return value, condition, for-header
	// part) - every parser has to parse an expression there.  TokStarts: the
	// start of every token of the source.
	ExprCore  [][2]int `json:"expr_core,omitempty"`
	TokStarts [][2]int `json:"tok_starts,omitempty"`
	Mode      Mode     `json:"mode"`
	// Builder history: Split > 0 installs only Chain[:Split] before the first
	// parsers are built and the rest afterwards; Builds is the number of parsers
	// built (and used) from the same builder in each stage (0 = 1).
	Split  int `json:"split,omitempty"`
	Builds int `json:"builds,omitempty"`
}

type c04Entry struct {
	idx  int
	typ  token.Type
	lit  string
	line int
	col  int
}

type c04TokEntry struct {
	idx       int
	line, col int
	ch        byte
	ret       token.Token
}

type c04Run struct {
	toks    []token.Token
	prog    *ast.Program
	errs    []parser.ParserError
	err     error
	outs    []string
	stmtLog []c04Entry
	exprLog []c04Entry
	tokLog  []c04TokEntry
}

// c04Execute installs the chain on one lexer/parser builder pair and returns one
// run per parser built from it, together with the part of the chain that was
// installed when that parser was built.
func c04Execute(c c04Case, chain []c04Icpt) (runs []*c04Run, eff [][]c04Icpt) {
	r := &c04Run{}
	lb := lexer.NewBuilder()
	pb := parser.NewBuilder(lb)
	if c.Mode.Tolerant {
		pb.WithTolerantMode(true)
	}
	if c.Mode.Smart {
		pb.WithSmartSemicolon(true)
	}
	nTok, nStmt, nExpr := 0, 0, 0
	split := c.Split
	if split <= 0 || split > len(chain) {
		split = len(chain)
	}
	builds := c.Builds
	if builds <= 0 {
		builds = 1
	}
	stage := func(upto int) {
		for b := 0; b < builds; b++ {
			r = &c04Run{}
			c04Parse(c, lb, pb, r)
			runs = append(runs, r)
			eff = append(eff, chain[:upto])
		}
	}
	for ci, ic := range chain {
		if ci == split {
			stage(split)
		}
		switch ic.Kind {
		case "tok":
			i := nTok
			nTok++
			f := func(l *lexer.Lexer, next func() token.Token) token.Token {
				e := c04TokEntry{idx: i, line: l.Line, col: l.Column, ch: l.CurrentChar}
				t := next()
				e.ret = t
				r.tokLog = append(r.tokLog, e)
				return t
			}
			lb.UseTokenInterceptor(f)
		case "stmt", "stmt-re":
			i := nStmt
			nStmt++
			re := ic.Kind == "stmt-re"
			f := func(p *parser.Parser, next func() ast.Statement) ast.Statement {
				t := p.CurrentToken
				r.stmtLog = append(r.stmtLog, c04Entry{i, t.Type, t.Literal, t.Start.Line, t.Start.Column})
				if re {
					switch t.Type {
					case token.LET:
						if s := p.ParseLetStatement(); s != nil {
							return s
						}
						return nil
					case token.RETURN:
						if s := p.ParseReturnStatement(); s != nil {
							return s
						}
						return nil
					case token.IF:
						if s := p.ParseIfStatement(); s != nil {
							return s
						}
						return nil
					case token.WHILE:
						if s := p.ParseWhileStatement(); s != nil {
							return s
						}
						return nil
					case token.LBRACE:
						if s := p.ParseBlockStatement(); s != nil {
							return s
						}
						return nil
					case token.FUNCTION:
						if s := p.ParseFunctionStatement(); s != nil {
							return s
						}
						return nil
					case token.FOR:
						if s := p.ParseForStatement(); s != nil {
							return s
						}
						return nil
					}
				}
				return next()
			}
			if ic.Plugin {
				pb.Install(func(b *parser.Builder) { b.UseStatementInterceptor(f) })
			} else {
				pb.UseStatementInterceptor(f)
			}
		case "expr", "expr-re":
			i := nExpr
			nExpr++
			re := ic.Kind == "expr-re"
			f := func(p *parser.Parser, next func() ast.Expression) ast.Expression {
				t := p.CurrentToken
				r.exprLog = append(r.exprLog, c04Entry{i, t.Type, t.Literal, t.Start.Line, t.Start.Column})
				if re {
					left := p.ParsePrefixExpression()
					return p.ParseRemainingExpression(left)
				}
				return next()
			}
			if ic.Plugin {
				pb.Install(func(b *parser.Builder) { b.UseExpressionInterceptor(f) })
			} else {
				pb.UseExpressionInterceptor(f)
			}
		}
	}
	stage(len(chain))
	return runs, eff
}

func c04Parse(c c04Case, lb *lexer.Builder, pb *parser.Builder, r *c04Run) {
	// token stream through the same lexer builder
	l := lb.Build(c.Src)
	for i := 0; i < len(c.Src)+3; i++ {
		t := l.NextToken()
		r.toks = append(r.toks, t)
		if t.Type == token.EOF {
			break
		}
	}
	r.tokLog = nil
	p := pb.Build(c.Src)
	r.prog, r.err = p.ParseProgram()
	r.errs = p.Errors()
	if r.err == nil {
		for _, cfg := range c03Cfgs {
			r.outs = append(r.outs, compile(r.prog, cfg).Code)
		}
	}
}

func c04Groups(log []c04Entry, k int, what string) (starts []c04Entry, f *Fail) {
	if k == 0 {
		return nil, nil
	}
	if len(log)%k != 0 {
		return nil, failf("%s interceptors were invoked %d times in total, not a multiple of their number %d", what, len(log), k)
	}
	for g := 0; g < len(log); g += k {
		for i := 0; i < k; i++ {
			e := log[g+i]
			if e.idx != i {
				return nil, failf("%s step %d: interceptor #%d ran at position %d (want installation order, each exactly once)", what, g/k, e.idx, i)
			}
			if e.typ != log[g].typ || e.lit != log[g].lit || e.line != log[g].line || e.col != log[g].col {
				return nil, failf("%s step %d: interceptor #%d saw current token %q at %d:%d, interceptor #0 saw %q at %d:%d", what, g/k, i, e.lit, e.line, e.col, log[g].lit, log[g].line, log[g].col)
			}
		}
		starts = append(starts, log[g])
	}
	return starts, nil
}

func c04Check(c c04Case, rec *evid.Recorder) *Fail {
	plain := c
	plain.Split, plain.Builds = 0, 0
	bases, _ := c04Execute(plain, nil)
	runs, effs := c04Execute(c, c.Chain)
	for i := range runs {
		rec.Eval()
		if f := c04CheckRun(c, *bases[0], *runs[i], effs[i], rec); f != nil {
			if len(runs) > 1 {
				f.Msg += fmt.Sprintf("\n(parser %d of %d built from one builder; %d of %d interceptors installed before the first build, %d builds per stage)", i+1, len(runs), len(effs[0]), len(c.Chain), len(runs)/2)
			}
			return f
		}
	}
	if len(runs) > 1 {
		rec.Class("builder-reused")
	}
	if c.Split > 0 && c.Split < len(c.Chain) {
		rec.Class("interceptors-installed-after-first-build")
	}
	return nil
}

func c04CheckRun(c c04Case, base, got c04Run, chain []c04Icpt, rec *evid.Recorder) *Fail {
	c.Chain = chain
	// 1. transparency
	if !reflect.DeepEqual(base.toks, got.toks) {
		return failf("token stream changes when pass-through interceptors are installed\nchain %v\nsrc %q", c.Chain, c.Src)
	}
	if !reflect.DeepEqual(base.errs, got.errs) || (base.err == nil) != (got.err == nil) {
		return failf("errors change when pass-through interceptors are installed: %v vs %v\nchain %v\nsrc %q", base.errs, got.errs, c.Chain, c.Src)
	}
	if !reflect.DeepEqual(base.prog, got.prog) {
		return failf("tree changes when pass-through/re-entrant interceptors are installed\nchain %v\nsrc %q\nbase %s\nwith %s", c.Chain, c.Src, trunc(compileSafe(base.prog), 300), trunc(compileSafe(got.prog), 300))
	}
	if !reflect.DeepEqual(base.outs, got.outs) {
		return failf("output changes when interceptors are installed\nchain %v\nsrc %q", c.Chain, c.Src)
	}
	// 2. order / once per step
	nStmt, nExpr, nTok := 0, 0, 0
	stmtRe, exprRe := -1, -1
	for _, ic := range c.Chain {
		switch ic.Kind {
		case "stmt", "stmt-re":
			if ic.Kind == "stmt-re" && stmtRe < 0 {
				stmtRe = nStmt
			}
			nStmt++
		case "expr", "expr-re":
			if ic.Kind == "expr-re" && exprRe < 0 {
				exprRe = nExpr
			}
			nExpr++
		case "tok":
			nTok++
		}
	}
	filter := func(log []c04Entry, upto int) []c04Entry {
		var out []c04Entry
		for _, e := range log {
			if e.idx <= upto {
				out = append(out, e)
			}
		}
		return out
	}
	stmtLog, kStmt := got.stmtLog, nStmt
	if stmtRe >= 0 {
		// a re-entrant statement interceptor handles some keywords itself, so
		// later interceptors legitimately miss those steps: check the prefix
		stmtLog, kStmt = filter(got.stmtLog, stmtRe), stmtRe+1
	}
	exprLog, kExpr := got.exprLog, nExpr
	if exprRe >= 0 {
		exprLog, kExpr = filter(got.exprLog, exprRe), exprRe+1
		for _, e := range got.exprLog {
			if e.idx > exprRe {
				return failf("expression interceptor #%d ran although re-entrant interceptor #%d (installed before it) never calls next()", e.idx, exprRe)
			}
		}
	}
	sStarts, f := c04Groups(stmtLog, kStmt, "statement")
	if f != nil {
		f.Msg += fmt.Sprintf("\nchain %v\nsrc %q", c.Chain, c.Src)
		return f
	}
	eStarts, f := c04Groups(exprLog, kExpr, "expression")
	if f != nil {
		f.Msg += fmt.Sprintf("\nchain %v\nsrc %q", c.Chain, c.Src)
		return f
	}
	if c.Valid && base.err == nil {
		cmp := func(what string, starts []c04Entry, want [][2]int, k int) *Fail {
			if k == 0 {
				return nil
			}
			if len(starts) != len(want) {
				return failf("%d %s steps logged, %d predicted from the program's structure\nlogged %v\npredicted %v\nchain %v\nsrc %q", len(starts), what, len(want), c04Pos(starts), want, c.Chain, c.Src)
			}
			for i := range want {
				if starts[i].line != want[i][0] || starts[i].col != want[i][1] {
					return failf("%s step %d: interceptors saw current token %q at %d:%d, the construct about to be parsed starts at %d:%d\nchain %v\nsrc %q", what, i, starts[i].lit, starts[i].line, starts[i].col, want[i][0], want[i][1], c.Chain, c.Src)
				}
			}
			return nil
		}
		if f := cmp("statement", sStarts, c.StmtSteps, kStmt); f != nil {
			return f
		}
		// Which positions inside an expression the parser treats as parse steps of
		// their own (group interiors, member names, operands ...) is its own
		// business; what the property fixes is: once per step, in installation order
		// (checked above), on the first token of a construct of the source, and -
		// no expression can be parsed without a step - at least at the positions
		// where a statement holds an expression.
		if kExpr > 0 && c.ExprCore != nil {
			tokAt := map[[2]int]bool{}
			for _, p := range c.TokStarts {
				tokAt[p] = true
			}
			k := 0
			prev := [2]int{-1, -1}
			for i, st := range eStarts {
				pos := [2]int{st.line, st.col}
				if !tokAt[pos] {
					return failf("expression step %d: interceptors saw current token %q at %d:%d, which is not the start of a token of the source\nchain %v\nsrc %q", i, st.lit, st.line, st.col, c.Chain, c.Src)
				}
				if pos[0] < prev[0] || (pos[0] == prev[0] && pos[1] < prev[1]) {
					return failf("expression step %d at %d:%d comes after a step at %d:%d: steps went backwards\nchain %v\nsrc %q", i, st.line, st.col, prev[0], prev[1], c.Chain, c.Src)
				}
				prev = pos
				if k < len(c.ExprCore) && pos == c.ExprCore[k] {
					k++
				}
			}
			if k < len(c.ExprCore) {
				return failf("the expression at %d:%d hangs directly on a statement but no expression interceptor ran with its first token as current token\nlogged %v\nchain %v\nsrc %q", c.ExprCore[k][0], c.ExprCore[k][1], c04Pos(eStarts), c.Chain, c.Src)
			}
		} else if f := cmp("expression", eStarts, c.ExprSteps, kExpr); f != nil {
			// replay files written before ExprCore existed
			return f
		}
	}
	// 3. token interceptors: once per NextToken, positioned on the lexeme's first byte
	if nTok > 0 {
		nNext := len(got.toks) // tokens the parser requested = lexed tokens incl. EOF (+ lookahead past EOF)
		counts := make([]int, nTok)
		lt := reflex.NewLineTable([]byte(c.Src))
		for _, e := range got.tokLog {
			counts[e.idx]++
			off := lt.Offset(e.line, e.col)
			if off < 0 || off > len(c.Src) {
				return failf("token interceptor entered with lexer position %d:%d outside the source\nsrc %q", e.line, e.col, c.Src)
			}
			if off < len(c.Src) && c.Src[off] != e.ch {
				return failf("token interceptor entered at %d:%d with CurrentChar %q but the source has %q there\nsrc %q", e.line, e.col, e.ch, c.Src[off], c.Src)
			}
			if e.ret.Start.Line != e.line || e.ret.Start.Column != e.col {
				return failf("token interceptor entered at %d:%d but the token it obtained starts at %d:%d (%q)\nsrc %q", e.line, e.col, e.ret.Start.Line, e.ret.Start.Column, e.ret.Literal, c.Src)
			}
		}
		for i := 1; i < nTok; i++ {
			if counts[i] != counts[0] {
				return failf("token interceptors were invoked %v times: not all the same", counts)
			}
		}
		// once per token: what interceptor #0 obtained is the token stream itself, in
		// order, nothing skipped and nothing twice (end of input may be requested
		// repeatedly); a parse that reports errors may stop asking before the end
		k := 0
		for _, e := range got.tokLog {
			if e.idx != 0 {
				continue
			}
			if k < nNext {
				if !reflect.DeepEqual(e.ret, got.toks[k]) {
					return failf("token interceptor call %d obtained %q at %d:%d, the %d-th token of the input is %q at %d:%d\nsrc %q", k, e.ret.Literal, e.ret.Start.Line, e.ret.Start.Column, k, got.toks[k].Literal, got.toks[k].Start.Line, got.toks[k].Start.Column, c.Src)
				}
			} else if e.ret.Type != token.EOF {
				return failf("token interceptor call %d obtained %q after the end of input", k, e.ret.Literal)
			}
			k++
		}
		if base.err == nil && counts[0] < nNext {
			return failf("token interceptor invoked %d times for %d tokens of an input that parses without error", counts[0], nNext)
		}
	}
	if kinds := map[string]int{"stmt": nStmt, "expr": nExpr, "tok": nTok}; kinds["stmt"] >= 2 || kinds["expr"] >= 2 || kinds["tok"] >= 2 || exprRe >= 0 {
		rec.NonTrivial(fmt.Sprintf("%v|%s", c.Chain, c.Src))
	}
	rec.Class(fmt.Sprintf("valid:%v", c.Valid))
	rec.Sample(len(c.Src), map[string]interface{}{"src": c.Src, "chain": c.Chain, "valid": c.Valid})
	return nil
}

func c04Pos(es []c04Entry) [][2]int {
	var out [][2]int
	for _, e := range es {
		out = append(out, [2]int{e.line, e.col})
	}
	return out
}

func compileSafe(p *ast.Program) (s string) {
	defer func() {
		if r := recover(); r != nil {
			if iv, ok := r.(invariantViolation); ok {
				panic(iv)
			}
			s = fmt.Sprint("<panic ", r, ">")
		}
	}()
	if p == nil {
		return "<nil>"
	}
	return compile(p, Cfg{}).Code
}

func c04Gen(t *rapid.T, rec *evid.Recorder) c04Case {
	r := gen.R{T: t}
	g := &gen.Syn{R: r, MaxDepth: 1 + r.Intn(4, "depth"), StmtDepth: r.Intn(3, "sdepth"), RichStr: true, Tpl: true, MultiTpl: true}
	tree := g.Program(4)
	opt := layout.Options{Random: true, ASI: true, Comments: true}
	if r.Intn(3, "redundant") == 0 {
		opt.Redundant = 100
	}
	src, toks := layout.Source(r, tree, opt)
	c := c04Case{Src: src, Valid: true, Mode: allModes[r.Intn(2, "mode")]}
	for _, tk := range toks {
		if tk.StmtStart {
			c.StmtSteps = append(c.StmtSteps, [2]int{tk.Line, tk.Col})
		}
		if tk.ExprStart {
			c.ExprSteps = append(c.ExprSteps, [2]int{tk.Line, tk.Col})
		}
		if tk.ExprCore {
			c.ExprCore = append(c.ExprCore, [2]int{tk.Line, tk.Col})
		}
		if tk.Rendered != "" && tk.Kind != layout.EOF {
			c.TokStarts = append(c.TokStarts, [2]int{tk.Line, tk.Col})
		}
	}
	if r.Intn(4, "malformed") == 0 {
		c.Src = mutateTokens(r, toks)
		c.Valid = false
		c.StmtSteps, c.ExprSteps, c.ExprCore, c.TokStarts = nil, nil, nil, nil
		c.Mode = allModes[r.Intn(4, "mode")]
	} else if r.Intn(8, "prefixbytes") == 0 {
		// bytes that other tools treat specially at the start of a file (the lexer
		// has no notion of them: they are ordinary - illegal - input)
		c.Src = []string{"\xef\xbb\xbf", "#!/usr/bin/env xjs\n", "\xfe\xff", "\x00", "\xc2\xa0"}[r.Intn(5, "prefixkind")] + c.Src
		c.Valid = false
		c.StmtSteps, c.ExprSteps, c.ExprCore, c.TokStarts = nil, nil, nil, nil
		rec.Class("input:special-prefix-bytes")
	}
	kinds := []string{"tok", "stmt", "expr", "expr-re", "stmt-re"}
	for i, n := 0, r.Intn(9, "nicpt"); i < n; i++ {
		k := kinds[r.Pick("ikind", 3, 4, 4, 2, 1)]
		c.Chain = append(c.Chain, c04Icpt{Kind: k, Plugin: r.Bool("plugin")})
		rec.Class("interceptor:" + k)
	}
	if r.Intn(3, "reuse") == 0 {
		c.Builds = 1 + r.Intn(3, "builds")
		if len(c.Chain) > 1 && r.Bool("late") {
			c.Split = 1 + r.Intn(len(c.Chain)-1, "split")
		}
	}
	return c
}

var c04Witnesses = []c04Case{
	{Src: "let a = b + c; if (a) { b } else c", Chain: []c04Icpt{{Kind: "stmt"}, {Kind: "stmt"}, {Kind: "expr"}, {Kind: "expr", Plugin: true}, {Kind: "stmt"}, {Kind: "expr"}}, Builds: 3, Split: 3},
	{Src: "let a = -b * (c + d[e]).f(g, {h: 1})", Chain: []c04Icpt{{Kind: "expr"}, {Kind: "expr-re"}, {Kind: "stmt"}, {Kind: "stmt", Plugin: true}, {Kind: "tok"}, {Kind: "tok"}}},
	{Src: "a = b = c + d * e - f", Chain: []c04Icpt{{Kind: "expr-re"}}},
	{Src: "a = b = c + d * e - f < g || h && !i", Chain: []c04Icpt{{Kind: "expr"}, {Kind: "expr"}, {Kind: "expr-re"}, {Kind: "expr"}}},
	{Src: "if (a) { let b = c } else while (d) e++", Chain: []c04Icpt{{Kind: "stmt"}, {Kind: "stmt-re"}, {Kind: "stmt"}}},
}

func TestC04(t *testing.T) {
	run(t, &prop[c04Case]{ID: "C04", Gen: c04Gen, Check: c04Check, Witnesses: c04Witnesses})
}
