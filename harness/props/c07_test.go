package props

import (
	"errors"
	"fmt"
	"math"
	"reflect"
	"sort"
	"strings"
	"testing"

	"github.com/dop251/goja"
	gast "github.com/dop251/goja/ast"
	gparser "github.com/dop251/goja/parser"
	"github.com/dop251/goja/unistring"
	"pgregory.net/rapid"

	"verif/harness/evid"
	"verif/harness/gen"
	"verif/harness/ir"
	"verif/harness/jsrun"
)

// C07 — literal values survive transpilation.

type c07Lit struct {
	Src   string   `json:"src"`             // literal as written, quotes included
	Units []uint16 `json:"units,omitempty"` // value the generator intends (strings only)
	Known bool     `json:"known,omitempty"` // Units is meaningful
}

type c07Case struct {
	Lits []c07Lit `json:"lits"`
	// Ctx places the literals: 0 = top-level print(...) statements; 1 = inside a
	// function body after blank lines; 2 = inside nested blocks with comments and
	// blank lines; 3 = as initialisers and a return value inside nested functions;
	// 4 = string and number literals as the property keys of object literals.
	Ctx int `json:"ctx,omitempty"`
}

var c07Cfgs = []Cfg{{}, {Pretty: true, Indent: 99}, {Pretty: true, Indent: -1, NoSemi: true}, {Pretty: true, Indent: 4}, {Pretty: true, Indent: 8, NoSemi: true}}

var errRefLimit = errors.New("reference parser limitation")

// keyRuntime converts numeric property keys to the property name they denote.
var keyRuntime = goja.New()

// litValues parses text with goja and returns the decoded value of every
// string/number/template literal in source order ("s:<hex units>" / "n:<bits>").
func litValues(src string) (vals []string, err error) {
	defer func() {
		if r := recover(); r != nil {
			vals, err = nil, fmt.Errorf("%w: %v", errRefLimit, r)
		}
	}()
	prog, perr := gparser.ParseFile(nil, "", src, 0)
	if perr != nil {
		return nil, perr
	}
	enc := func(s unistring.String) string {
		var b strings.Builder
		b.WriteString("s:")
		if u := s.AsUtf16(); u != nil {
			for _, x := range u[1:] { // u[0] is goja's BOM marker
				fmt.Fprintf(&b, "%04x", x)
			}
		} else {
			for i := 0; i < len(s); i++ { // ASCII-only representation
				fmt.Fprintf(&b, "%04x", s[i])
			}
		}
		return b.String()
	}
	// every literal of the program, wherever it stands, in source order
	type found struct {
		idx int
		val string
	}
	var all []found
	seen := map[uintptr]bool{}
	var walk func(v reflect.Value)
	walk = func(v reflect.Value) {
		switch v.Kind() {
		case reflect.Interface:
			if !v.IsNil() {
				walk(v.Elem())
			}
		case reflect.Ptr:
			if v.IsNil() || seen[v.Pointer()] {
				return
			}
			seen[v.Pointer()] = true
			switch n := v.Interface().(type) {
			case *gast.StringLiteral:
				all = append(all, found{int(n.Idx0()), enc(n.Value)})
				return
			case *gast.NumberLiteral:
				var f float64
				switch x := n.Value.(type) {
				case int64:
					f = float64(x)
				case float64:
					f = x
				default:
					all = append(all, found{int(n.Idx0()), fmt.Sprintf("n:?%T", n.Value)})
					return
				}
				all = append(all, found{int(n.Idx0()), fmt.Sprintf("n:%016x", math.Float64bits(f))})
				return
			case *gast.PropertyKeyed:
				// a property key is compared as the property name it denotes, so
				// that a printer may spell `"1"` as `1` or `"a"` as `a`
				switch k := n.Key.(type) {
				case *gast.StringLiteral:
					all = append(all, found{int(k.Idx0()), enc(k.Value)})
				case *gast.NumberLiteral:
					all = append(all, found{int(k.Idx0()), enc(unistring.NewFromString(keyRuntime.ToValue(k.Value).String()))})
				default:
					walk(reflect.ValueOf(n.Key))
				}
				walk(reflect.ValueOf(n.Value))
				return
			case *gast.TemplateLiteral:
				for k, el := range n.Elements {
					all = append(all, found{int(n.Idx0()) + k, "t" + enc(el.Parsed)})
				}
				return
			}
			walk(v.Elem())
		case reflect.Struct:
			for i := 0; i < v.NumField(); i++ {
				if v.Type().Field(i).IsExported() {
					walk(v.Field(i))
				}
			}
		case reflect.Slice:
			for i := 0; i < v.Len(); i++ {
				walk(v.Index(i))
			}
		}
	}
	walk(reflect.ValueOf(prog.Body))
	sort.SliceStable(all, func(i, j int) bool { return all[i].idx < all[j].idx })
	for _, f := range all {
		vals = append(vals, f.val)
	}
	return vals, nil
}

func unitsKey(u []uint16) string {
	var b strings.Builder
	b.WriteString("s:")
	for _, x := range u {
		fmt.Fprintf(&b, "%04x", x)
	}
	return b.String()
}

func c07Program(lits []c07Lit, ctx int) string {
	flat := c07Flat(lits)
	switch ctx {
	case 4:
		var b strings.Builder
		for _, l := range lits {
			if l.Src[0] == '`' {
				fmt.Fprintf(&b, "print(%s);\n", l.Src)
			} else {
				fmt.Fprintf(&b, "print({%s: null});\n", l.Src)
			}
		}
		return b.String()
	case 1:
		return "function f0() {\n\n\n" + flat + "}\nf0();\n"
	case 2:
		return "let go = true;\nif (go) {\n\n  // first\n\n  {\n\n\n" + flat + "\n  }\n\n}\n"
	case 3:
		var b strings.Builder
		b.WriteString("function outer() {\n\n  function inner() {\n\n")
		for i, l := range lits {
			fmt.Fprintf(&b, "    let v%d = %s;\n\n", i, l.Src)
		}
		b.WriteString("    return [")
		for i := range lits {
			if i > 0 {
				b.WriteString(", ")
			}
			fmt.Fprintf(&b, "v%d", i)
		}
		b.WriteString("];\n  }\n\n  return inner();\n}\nprint(outer());\n")
		return b.String()
	}
	return flat
}

func c07Flat(lits []c07Lit) string {
	var b strings.Builder
	for i := 0; i < len(lits); i += 8 {
		b.WriteString("print(")
		for j := i; j < i+8 && j < len(lits); j++ {
			if j > i {
				b.WriteString(", ")
			}
			b.WriteString(lits[j].Src)
		}
		b.WriteString(");\n")
	}
	return b.String()
}

func c07Check(c c07Case, rec *evid.Recorder) *Fail {
	src := c07Program(c.Lits, c.Ctx)
	want, err := litValues(src)
	refLimited := false
	if err != nil {
		if !errors.Is(err, errRefLimit) {
			return failf("generated literal program is not valid JavaScript: %v\nsrc %q", err, src).tag("harness-selfcheck")
		}
		refLimited = true
		// fall back on the generator's own decoding (strings only)
		want = nil
		for _, l := range c.Lits {
			if !l.Known {
				rec.Discard("reference parser limitation without generator-side value")
				return nil
			}
			want = append(want, unitsKey(l.Units))
		}
	} else {
		if len(want) != len(c.Lits) {
			return failf("reference parser found %d literals, generated %d\nsrc %q", len(want), len(c.Lits), src).tag("harness-selfcheck")
		}
		for i, l := range c.Lits {
			if l.Known && want[i] != unitsKey(l.Units) {
				return failf("generator and reference parser disagree on the value of %s: %s vs %s", l.Src, unitsKey(l.Units), want[i]).tag("harness-selfcheck")
			}
		}
	}
	p, errs, perr := parseX(src, Mode{})
	if perr != nil || len(errs) > 0 {
		msg := ""
		if len(errs) > 0 {
			msg = errs[0].Message
		}
		// find the literals that are rejected on their own, set them aside
		// (whether a literal must be accepted is C02's clause, and C02 enumerates
		// the same literal space) and go on with the rest of the batch
		if len(c.Lits) > 1 {
			var rest []c07Lit
			for _, l := range c.Lits {
				if _, e1, e2 := parseX("print("+l.Src+");", Mode{}); e2 != nil || len(e1) > 0 {
					kind := "number"
					if l.Src[0] == '"' || l.Src[0] == '\'' {
						kind = "string"
					} else if l.Src[0] == '`' {
						kind = "template"
					}
					rec.Discard("literal rejected by xjs: " + kind)
					rec.Note("rejected literal: " + trunc(l.Src, 60) + " (" + msg + ")")
					continue
				}
				rest = append(rest, l)
			}
			if len(rest) > 0 && len(rest) < len(c.Lits) {
				return c07Check(c07Case{Lits: rest, Ctx: c.Ctx}, rec)
			}
		}
		rec.Discard("literal program rejected by xjs: " + msg)
		return nil
	}
	var refRun *jsrun.Result
	if !refLimited {
		r := jsrun.Run(src)
		refRun = &r
	}
	var outputs []v8Output
	for _, cfg := range c07Cfgs {
		rec.Eval()
		out := compile(p, cfg).Code
		outputs = append(outputs, v8Output{cfg.String(), out})
		got, err := litValues(out)
		if err != nil {
			if errors.Is(err, errRefLimit) {
				rec.Discard("reference parser limitation on output")
				continue
			}
			return failf("[%s] emitted code is not valid JavaScript: %v\nliterals %q\ncode %q", cfg, err, litSrcs(c.Lits), out)
		}
		if len(got) != len(want) {
			return failf("[%s] emitted code has %d literals, source has %d\nsrc %q\ncode %q", cfg, len(got), len(want), src, out)
		}
		for i := range want {
			if strings.TrimPrefix(got[i], "t") != strings.TrimPrefix(want[i], "t") {
				return failf("[%s] literal %d %s denotes %s in the source but %s in the emitted code\ncode %q", cfg, i, c.Lits[i].Src, want[i], got[i], trunc(out, 400))
			}
		}
		if refRun != nil && refRun.Completion == "normal" {
			r := jsrun.Run(out)
			if r.Completion != "interrupted" && r.Completion != "engine-limitation" && !refRun.Equal(r) {
				return failf("[%s] evaluating the literals gives different values\nsource: %s\noutput: %s\nsrc %q\ncode %q", cfg, *refRun, r, src, out)
			}
		}
		for _, l := range c.Lits {
			if c07NonTrivial(l.Src) {
				rec.NonTrivial(cfg.String() + "|" + l.Src)
			}
		}
	}
	if refRun != nil && refRun.Completion == "normal" {
		if f := v8Pass(src, *refRun, outputs, rec); f != nil {
			return f
		}
	}
	rec.Sample(len(c.Lits), map[string]interface{}{"literals": litSrcs(c.Lits[:min(len(c.Lits), 12)])})
	return nil
}

func litSrcs(ls []c07Lit) []string {
	out := make([]string, len(ls))
	for i, l := range ls {
		out[i] = l.Src
	}
	return out
}

func c07NonTrivial(s string) bool {
	if len(s) == 0 {
		return false
	}
	if s[0] == '"' || s[0] == '\'' || s[0] == '`' {
		body := s[1 : len(s)-1]
		if strings.ContainsAny(body, "\\\"'`\n") {
			return true
		}
		for i := 0; i < len(body); i++ {
			if body[i] >= 0x80 {
				return true
			}
		}
		return false
	}
	return strings.ContainsAny(s, "xXbBoOeE")
}

func strLit(n *ir.Node) c07Lit {
	return c07Lit{Src: n.Quote + n.Spelling() + n.Quote, Units: n.Units(), Known: true}
}

func c07NumText(r gen.R) string {
	digits := func(n int, set string) string {
		var b strings.Builder
		for i := 0; i < n; i++ {
			b.WriteByte(set[r.Intn(len(set), "digit")])
		}
		return b.String()
	}
	nz := func(n int) string {
		s := digits(n, "0123456789")
		if len(s) > 1 && s[0] == '0' {
			s = "1" + s[1:]
		}
		return s
	}
	switch r.Pick("c07num", 4, 4, 5, 3, 3, 3, 2) {
	case 6:
		// legacy octal integer: a leading zero followed by octal digits only (`00`, `017`, `0007`)
		return "0" + digits(1+r.Intn(12, "nlo"), "01234567")
	case 0:
		return nz(1 + r.Intn(18, "nd"))
	case 1:
		return nz(1+r.Intn(9, "nd")) + "." + digits(1+r.Intn(17, "nf"), "0123456789")
	case 2:
		m := nz(1 + r.Intn(6, "nd"))
		if r.Bool("frac") {
			m += "." + digits(1+r.Intn(12, "nf"), "0123456789")
		}
		exp := r.Intn(308, "exp")
		sign := []string{"", "+", "-"}[r.Intn(3, "esign")]
		return m + string("eE"[r.Intn(2, "E")]) + sign + fmt.Sprint(exp)
	case 3:
		return "0" + string("xX"[r.Intn(2, "x")]) + digits(1+r.Intn(15, "nh"), "0123456789abcdefABCDEF")
	case 4:
		return "0" + string("bB"[r.Intn(2, "b")]) + digits(1+r.Intn(62, "nb"), "01")
	default:
		return "0" + string("oO"[r.Intn(2, "o")]) + digits(1+r.Intn(20, "no"), "01234567")
	}
}

// c07OctalLit: legacy octal escapes (\N, \NN, \NNN as far as the grammar lets
// them reach) mixed with what may follow them without being absorbed: an escape
// that denotes a digit, a raw non-digit, another octal escape of maximal length.
func c07OctalLit(r gen.R) c07Lit {
	q := []string{"\"", "'"}[r.Intn(2, "oq")]
	var src strings.Builder
	var units []uint16
	for i, n := 0, 1+r.Intn(4, "noct"); i < n; i++ {
		d1 := r.Intn(8, "od1")
		digits := []int{d1}
		maxLen := 3
		if d1 >= 4 {
			maxLen = 2
		}
		for k := 1; k < maxLen && r.Intn(3, "omore") > 0; k++ {
			digits = append(digits, r.Intn(8, "od"))
		}
		v := 0
		src.WriteByte('\\')
		for _, d := range digits {
			v = v*8 + d
			src.WriteByte(byte('0' + d))
		}
		units = append(units, uint16(v))
		// what follows must not be a raw digit (it would be absorbed or change the reading)
		switch r.Intn(5, "ofollow") {
		case 0:
			d := r.Intn(10, "odigit")
			fmt.Fprintf(&src, "\\x3%d", d)
			units = append(units, uint16('0'+d))
		case 1:
			d := r.Intn(10, "odigit")
			fmt.Fprintf(&src, "\\u003%d", d)
			units = append(units, uint16('0'+d))
		case 2:
			d := r.Intn(10, "odigit")
			fmt.Fprintf(&src, "\\u{3%d}", d)
			units = append(units, uint16('0'+d))
		case 3:
			c := "abxyz -+._"[r.Intn(10, "oraw")]
			src.WriteByte(c)
			units = append(units, uint16(c))
		default:
			if len(digits) < maxLen {
				src.WriteByte('_')
				units = append(units, '_')
			}
		}
	}
	return c07Lit{Src: q + src.String() + q, Units: units, Known: true}
}

func c07Gen(t *rapid.T, rec *evid.Recorder) c07Case {
	r := gen.R{T: t}
	var lits []c07Lit
	for i, n := 0, 1+r.Intn(8, "nlits"); i < n; i++ {
		switch r.Pick("litkind", 6, 2, 3, 1) {
		case 3:
			rec.Class("literal:legacy-octal-sequence")
			lits = append(lits, c07OctalLit(r))
		case 0:
			s := r.RichStr(12)
			for f := range gen.PieceFamilies(s) {
				rec.Class("piece:" + f)
			}
			lits = append(lits, strLit(s))
		case 1:
			tp := r.TplNode(true)
			rec.Class("literal:template")
			lits = append(lits, c07Lit{Src: "`" + tp.Op + "`"})
		default:
			rec.Class("literal:number")
			lits = append(lits, c07Lit{Src: c07NumText(r)})
		}
	}
	return c07Case{Lits: lits, Ctx: r.Intn(5, "ctx")}
}

// exhaustive single-piece strings, partitioned over the shards in batches.
func c07Exhaustive(rec *evid.Recorder, report func(c07Case)) {
	sh, nsh := shard()
	var batch []c07Lit
	nb := 0
	flush := func() {
		if len(batch) == 0 {
			return
		}
		if nb%nsh == sh {
			report(c07Case{Lits: batch})
		}
		nb++
		batch = nil
	}
	add := func(p ir.Piece) {
		for _, q := range []string{"\"", "'"} {
			n := &ir.Node{K: ir.Str, Quote: q, Pieces: []ir.Piece{p}}
			batch = append(batch, strLit(n))
			if len(batch) >= 256 {
				flush()
			}
		}
	}
	c07EnumPieces(rec, add, func(l c07Lit) { batch = append(batch, l) })
	flush()
	rec.ClassN("exhaustive-batches", nb)
}

// c07EnumPieces enumerates the single-piece string literals of the exhaustive
// space: add receives a piece (used in both quote styles), rawLit a complete literal.
func c07EnumPieces(rec *evid.Recorder, add func(ir.Piece), rawLit func(c07Lit)) {
	for v := 0; v < 256; v++ {
		add(gen.HexPiece(v, false))
		add(gen.HexPiece(v, true))
	}
	rec.Exhaustive("every \\xHH in both quote styles and both hex cases")
	for v := 0; v < 0x10000; v++ {
		add(gen.UniPiece(v, v%2 == 0))
	}
	rec.Exhaustive("every \\uHHHH in both quote styles")
	// \u{...}: every plane boundary +-2, every power of two +-1, a stride, widths 1..6
	seen := map[int]bool{}
	ub := func(v int) {
		if v < 0 || v > 0x10FFFF || seen[v] {
			return
		}
		seen[v] = true
		min := len(fmt.Sprintf("%x", v))
		for w := min; w <= 6; w++ {
			add(gen.UniBracePiece(v, w, w%2 == 0))
		}
	}
	for pl := 0; pl <= 0x11; pl++ {
		for d := -2; d <= 2; d++ {
			ub(pl<<16 + d)
		}
	}
	for k := uint(0); k <= 20; k++ {
		for d := -1; d <= 1; d++ {
			ub(1<<k + d)
		}
	}
	for v := 0; v <= 0x10FFFF; v += 257 {
		ub(v)
	}
	for v := 0; v < 0x800; v++ {
		ub(v)
	}
	for v := 0xD7F0; v < 0xE010; v++ {
		ub(v)
	}
	// sequences of two and three \\uHHHH escapes around the surrogate ranges: a
	// decoder that pairs escapes must pair a high with a low surrogate only
	su := []int{0x0041, 0xD7FF, 0xD800, 0xD83D, 0xDBFF, 0xDC00, 0xDE00, 0xDFFF, 0xE000, 0xFFFF}
	seq := func(vs ...int) {
		for qi, q := range []string{"\"", "'"} {
			var src strings.Builder
			var units []uint16
			for k, v := range vs {
				if (k+qi)%3 == 2 && (v < 0xD800 || v > 0xDFFF) {
					fmt.Fprintf(&src, "\\u{%x}", v)
				} else {
					fmt.Fprintf(&src, "\\u%04X", v)
				}
				units = append(units, uint16(v))
			}
			rawLit(c07Lit{Src: q + src.String() + q, Units: units, Known: true})
		}
	}
	for _, a := range su {
		for _, b := range su {
			seq(a, b)
			for _, c := range su {
				seq(a, b, c)
			}
		}
	}
	rec.Exhaustive("every pair and triple of \\uHHHH escapes over 10 code units around the surrogate ranges")
	// every ASCII byte raw and backslash-escaped
	for c := 0; c < 128; c++ {
		if c == '\n' || c == '\r' {
			continue
		}
		for _, q := range []byte{'"', '\''} {
			if byte(c) != q && c != '\\' {
				n := &ir.Node{K: ir.Str, Quote: string(q), Pieces: []ir.Piece{{Src: string(rune(c)), Units: []uint16{uint16(c)}}}}
				rawLit(strLit(n))
			}
		}
		if (c >= '1' && c <= '9') || c == 'x' || c == 'u' {
			continue
		}
		add(gen.EscPiece(byte(c)))
	}
	add(ir.Piece{Src: "\\\n", Units: nil})
	add(ir.Piece{Src: "\\\r\n", Units: nil})
	rec.Exhaustive("every ASCII byte raw and backslash-escaped, both quote styles")
}

var c07Witnesses = []c07Case{
	{Ctx: 4, Lits: []c07Lit{{Src: "\"007\""}, {Src: "'01'"}, {Src: "\"9007199254740993\""}, {Src: "\"0\""}, {Src: "\"42\""}, {Src: "'a b'"}, {Src: "''"}, {Src: "\"if\""}, {Src: "1.50"}, {Src: "0x10"}, {Src: "1e21"}, {Src: "010"}, {Src: "'1e3'"}, {Src: "'0x10'"}, {Src: "'-1'"}, {Src: "'1.0'"}}},
	{Lits: []c07Lit{{Src: "\"caf\\é\""}, {Src: "'\\€'"}, {Src: "\"\\😀\""}, {Src: "'a\\\u2028b'"}, {Src: "'a\\\u2029b'"}, {Src: "'a\\1\\x31b'"}, {Src: "\"\\12\\u0033\""}, {Src: "'\\377\\u{38}'"}}},
	{Lits: []c07Lit{{Src: "'say \"hi\"'"}, {Src: "\"it's\""}, {Src: "'\\x22'"}, {Src: "'\\u0022'"}, {Src: "'\\x5C'"}, {Src: "'\\u{5c}n'"}, {Src: "'\\x0A'"}, {Src: "'\\xE9'"}, {Src: "'\\uD83D'"}, {Src: "'\\uD83D\\uDE00'"}, {Src: "'\\u{1F600}'"}, {Src: "'\\u2028'"}}},
	{Lits: []c07Lit{{Src: "`a \\` b`"}, {Src: "`\\\\`"}, {Src: "`x  \n  y`"}, {Src: "'line\\\ncont'"}, {Src: "`a\r\nb`"}, {Src: "`$ {x}`"}}},
	{Lits: []c07Lit{{Src: "0"}, {Src: "1.50"}, {Src: "1e21"}, {Src: "2.5E-3"}, {Src: "0xFF"}, {Src: "0b101"}, {Src: "0o17"}, {Src: "9007199254740993"}, {Src: "123456789012345678"}, {Src: "5e-324"}, {Src: "1.7976931348623157e308"}}},
}

func TestC07(t *testing.T) {
	run(t, &prop[c07Case]{ID: "C07", Gen: c07Gen, Check: c07Check, Exhaustive: c07Exhaustive, Witnesses: c07Witnesses})
}
