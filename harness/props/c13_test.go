package props

import (
	"fmt"

	"github.com/xjslang/xjs/ast"
	"github.com/xjslang/xjs/token"
	"reflect"
	"strings"
	"testing"

	"pgregory.net/rapid"

	"verif/harness/evid"
	"verif/harness/gen"
	"verif/harness/ir"
	"verif/harness/layout"
	"verif/harness/reflex"
	"verif/harness/shape"
)

// C13 — parser modes differ only where documented.

type c13Case struct {
	Kind string `json:"kind"` // same | join | open-block | smart
	Src  string `json:"src"`  // text given to the parsers
	Orig string `json:"orig,omitempty"`
	// smart: text with `;` inserted before every line-leading ( or [ in infix position
	Ins      string `json:"ins,omitempty"`
	NLeading int    `json:"nleading,omitempty"`
}

func errsString(errs interface{}) string { return fmt.Sprintf("%v", errs) }

func c13Check(c c13Case, rec *evid.Recorder) *Fail {
	rec.Eval()
	rec.Class("kind:" + c.Kind)
	switch c.Kind {
	case "same":
		for _, smart := range []bool{false, true} {
			ps, es, err := parseX(c.Src, Mode{Smart: smart})
			if err != nil || len(es) > 0 {
				rec.Discard("strict rejects (not in the clause's domain)")
				continue
			}
			pt, et, errT := parseX(c.Src, Mode{Tolerant: true, Smart: smart})
			if errT != nil || len(et) > 0 {
				return failf("tolerant mode (smart=%v) reports errors on a program strict mode accepts: %v\nsrc %q", smart, et, c.Src)
			}
			if !reflect.DeepEqual(ps, pt) {
				return failf("tolerant mode (smart=%v) returns a different tree than strict mode\nsrc %q\nstrict   %s\ntolerant %s", smart, c.Src, trunc(compileSafe(ps), 300), trunc(compileSafe(pt), 300))
			}
			if countStmts(mustShape(ps)) >= 2 {
				rec.NonTrivial(fmt.Sprintf("same|%v|%s", smart, c.Src))
			}
		}
	case "join", "open-block":
		_, es, _ := parseX(c.Src, Mode{})
		strictFails := len(es) > 0
		for _, smart := range []bool{false, true} {
			// reference: the intact program in the same smart setting, strict
			po, eo, _ := parseX(c.Orig, Mode{Smart: smart})
			if len(eo) > 0 {
				rec.Discard("original rejected in this smart setting")
				continue
			}
			want := mustShape(po)
			pt, et, errT := parseX(c.Src, Mode{Tolerant: true, Smart: smart})
			if errT != nil || len(et) > 0 {
				return failf("tolerant mode (smart=%v) reports %v on %s text\ncorrupted %q\noriginal  %q", smart, et, c.Kind, c.Src, c.Orig)
			}
			got, err := shape.FromXJS(pt)
			if err != nil {
				return failf("tolerant tree incomplete: %v\ncorrupted %q", err, c.Src)
			}
			if d := ir.Diff(want, got); d != "" {
				return failf("tolerant mode (smart=%v) does not keep every complete statement: %s\ncorrupted %q\noriginal  %q\nwant %s\ngot  %s", smart, d, c.Src, c.Orig, trunc(ir.Sexp(want), 400), trunc(ir.Sexp(got), 400))
			}
		}
		if strictFails {
			rec.NonTrivial(c.Kind + "|" + c.Src)
		} else {
			rec.Class("strict-also-accepts:" + c.Kind)
		}
	case "smart":
		for _, tol := range []bool{false, true} {
			psm, esm, _ := parseX(c.Src, Mode{Smart: true, Tolerant: tol})
			if c.NLeading == 0 {
				pd, ed, _ := parseX(c.Src, Mode{Tolerant: tol})
				if !reflect.DeepEqual(esm, ed) || !reflect.DeepEqual(psm, pd) {
					return failf("smart-semicolon mode (tolerant=%v) differs from default mode on a text without line-leading ( or [\nsrc %q\nsmart errors %v\ndefault errors %v", tol, c.Src, esm, ed)
				}
				continue
			}
			pi, ei, _ := parseX(c.Ins, Mode{Tolerant: tol})
			if len(ei) > 0 {
				rec.Discard("text with inserted semicolons is rejected in default mode")
				continue
			}
			if len(esm) > 0 {
				return failf("smart-semicolon mode (tolerant=%v) rejects %q (%v) although the same text with `;` before each line-leading ( or [ parses: %q", tol, c.Src, esm, c.Ins)
			}
			want, got := mustShape(pi), mustShape(psm)
			if d := ir.Diff(want, got); d != "" {
				return failf("smart-semicolon mode (tolerant=%v): tree differs from default-mode tree of the text with explicit semicolons: %s\nsrc %q\nins %q\nwant %s\ngot  %s", tol, d, c.Src, c.Ins, trunc(ir.Sexp(want), 400), trunc(ir.Sexp(got), 400))
			}
			rec.NonTrivial("smart|" + c.Src)
		}
	case "corrupt":
		if f := c13Corrupt(c.Src, rec); f != nil {
			return f
		}
	default:
		return failf("bad kind %q", c.Kind).tag("harness-selfcheck")
	}
	rec.Sample(len(c.Src), c)
	return nil
}

// c13Corrupt: "differ only where documented" on arbitrary (mostly malformed)
// text.  Whatever tolerant mode accepts without an error although strict mode
// rejects it must be explainable by its two documented relaxations alone:
// there must be a repaired text - the input plus statement separators and plus
// closing braces at the very end, nothing else - that *strict* mode accepts
// with the same tree.  The repair is found with strict mode's own first error
// as the guide: a `;` is inserted in front of the token the error points at (or
// in front of the token after it), or - when the error is at the end of the
// input - a `}` is appended; a step counts only if it moves the first error
// forward or removes it.  Strict mode is the judge, so every quirk it has of
// its own is shared and never reported here; neither the printer nor the
// wording of any message is involved.  A tolerant parse that reports errors
// asserts nothing.
func c13Corrupt(src string, rec *evid.Recorder) *Fail {
	for _, smart := range []bool{false, true} {
		rec.Eval()
		pt, et, errT := parseX(src, Mode{Tolerant: true, Smart: smart})
		if errT != nil || len(et) > 0 {
			rec.Class("corrupt:tolerant-reports-errors")
			continue
		}
		_, es, _ := parseX(src, Mode{Smart: smart})
		if len(es) == 0 {
			// strict mode accepts the text as well: the first clause (identical tree) decides
			rec.Class("corrupt:strict-accepts-too")
			continue
		}
		rec.Class("corrupt:tolerant-accepts,strict-rejects")
		rec.NonTrivial(fmt.Sprintf("corrupt|%v|%s", smart, src))
		code, perr, _ := safeCompile(pt, Cfg{})
		if perr != nil {
			return failf("tolerant mode (smart=%v) accepts the text without error but the tree does not compile: %v\nsrc %q", smart, perr, src)
		}
		// how many blocks are left open is at most the surplus of opening braces (a
		// brace that strict mode takes for something else, e.g. in a parameter
		// list, opens nothing): every count up to the surplus is a legitimate repair
		same, accepted, firstRepair, firstOther, best := false, 0, "", "", ""
		c13Repairs(src, smart, func(repaired string, ok bool) bool {
			if !ok {
				if best == "" {
					best = repaired
				}
				return true
			}
			accepted++
			ps, _, _ := parseX(repaired, Mode{Smart: smart})
			code2, _, _ := safeCompile(ps, Cfg{})
			if code2 == code {
				same = true
				return false
			}
			if firstOther == "" {
				firstRepair, firstOther = repaired, code2
			}
			return true
		})
		if accepted == 0 {
			return failf("tolerant mode (smart=%v) accepts without error a text that strict mode rejects, and no combination of added statement separators and final closing braces makes the text acceptable to strict mode: the acceptance is not explained by the documented relaxations\nsrc      %q\ntree     %q\nbest repair %q\nstrict errors on src %v", smart, src, code, best, es)
		}
		if !same {
			return failf("tolerant mode (smart=%v): the tree differs from strict mode's tree of the text repaired with separators and final braces only\nsrc      %q\ntolerant %q\nrepaired %q\nstrict   %q", smart, src, code, firstRepair, firstOther)
		}
	}
	return nil
}

// c13Repairs: see c13Corrupt.  Blocks left open can only be closed at the very
// end.  How many are open cannot be read off the braces: strict mode takes a
// brace in a parameter list for a parameter (`function f({){` has one open
// block, `function f(}){` has one as well), so every count from zero to the
// number of `{` tokens is tried, nearest to the surplus of `{` over `}` first.
// Where separators are missing is found with strict mode's first error as the
// guide.  visit is called for every count (repaired text, whether strict mode
// accepts it) until it returns false.
func c13Repairs(src string, smart bool, visit func(string, bool) bool) {
	surplus, max := 0, 0
	for _, t := range lexAll(src) {
		switch t.Type {
		case token.LBRACE:
			surplus++
			max++
		case token.RBRACE:
			surplus--
		}
	}
	if surplus < 0 {
		surplus = 0
	}
	if surplus > max {
		surplus = max
	}
	for d := 0; d <= max; d++ {
		ks := []int{surplus - d, surplus + d}
		if d == 0 {
			ks = ks[:1]
		}
		for _, k := range ks {
			if k < 0 || k > max {
				continue
			}
			if !visit(c13Repair(src, smart, k)) {
				return
			}
		}
	}
}

func c13Repair(src string, smart bool, closers int) (string, bool) {
	cur := src
	if closers > 0 {
		if strings.Contains(src[lastLineStart(src):], "//") {
			cur += "\n" // never append into a trailing comment
		}
		cur += strings.Repeat("}", closers)
	}
	errPos := func(text string) (int, bool) {
		_, es, _ := parseX(text, Mode{Smart: smart})
		if len(es) == 0 {
			return 0, false
		}
		lt := reflex.NewLineTable([]byte(text))
		off := lt.Offset(es[0].Range.Start.Line, es[0].Range.Start.Column)
		if off < 0 || off > len(text) {
			off = len(text)
		}
		return off, true
	}
	for step := 0; step < 80; step++ {
		p, bad := errPos(cur)
		if !bad {
			return cur, true
		}
		// candidates: a separator in front of the token the error points at, or in
		// front of the token after it (an implementation may report the missing
		// separator at either)
		cands := []string{cur[:p] + ";" + cur[p:]}
		{
			lt := reflex.NewLineTable([]byte(cur))
			for _, t := range lexAll(cur) {
				if o := lt.Offset(t.Start.Line, t.Start.Column); o > p && t.Type != token.EOF {
					cands = append(cands, cur[:o]+";"+cur[o:])
					break
				}
			}
		}
		progressed := false
		for _, c := range cands {
			if q, stillBad := errPos(c); !stillBad || q > p+1 {
				cur, progressed = c, true
				break
			}
		}
		if !progressed {
			return cur, false
		}
	}
	return cur, false
}

func lastLineStart(s string) int {
	if i := strings.LastIndexByte(s, '\n'); i >= 0 {
		return i + 1
	}
	return 0
}

func mustShape(p interface{}) *ir.Node {
	n, err := shape.FromXJS(p.(*ast.Program))
	if err != nil {
		return ir.N(ir.Program, "incomplete: "+err.Error())
	}
	return n
}

func c13Gen(t *rapid.T, rec *evid.Recorder) c13Case {
	r := gen.R{T: t}
	g := &gen.Syn{R: r, MaxDepth: 1 + r.Intn(3, "depth"), StmtDepth: r.Intn(3, "sdepth"), RichStr: true, Tpl: true, MultiTpl: true}
	switch r.Pick("c13kind", 3, 3, 2, 4, 3) {
	case 4:
		tree := g.Program(4)
		src, toks := layout.Source(r, tree, layout.Options{Random: true, ASI: true, Comments: r.Bool("comments")})
		if r.Bool("truncate") && len(src) > 0 {
			return c13Case{Kind: "corrupt", Src: src[:r.Intn(len(src), "cut")]}
		}
		return c13Case{Kind: "corrupt", Src: mutateTokens(r, toks)}
	case 0:
		tree := g.Program(5)
		opt := layout.Options{Random: true, ASI: true, Comments: true}
		if r.Bool("redundant") {
			opt.Redundant = 100
		}
		src, _ := layout.Source(r, tree, opt)
		return c13Case{Kind: "same", Src: src}
	case 1:
		// remove one statement separator: the two statements end up on one line, one space apart
		tree := g.Program(5)
		orig, toks := layout.Source(r, tree, layout.Options{Random: true, ASI: true, Comments: r.Bool("comments")})
		var cands []int
		for i, tk := range toks {
			if tk.Kind != layout.Term {
				continue
			}
			p, n := prevRendered(toks, i), nextTok(toks, i)
			if p == nil || n == nil || !n.StmtStart {
				continue
			}
			// the second statement must not be able to continue the first one
			if n.Text == "(" || n.Text == "[" || n.Text == "-" || n.Text == "++" || n.Text == "--" || n.Kind == layout.Template {
				continue
			}
			if p.Kind == layout.Word && p.Role == layout.Keyword && p.Text == "return" {
				continue // `return` + next statement would read as its operand
			}
			cands = append(cands, i)
		}
		if len(cands) == 0 {
			return c13Case{Kind: "same", Src: orig}
		}
		i := cands[r.Intn(len(cands), "sep")]
		p, n := prevRendered(toks, i), nextTok(toks, i)
		return c13Case{Kind: "join", Orig: orig, Src: orig[:p.Off+len(p.Rendered)] + " " + orig[n.Off:]}
	case 2:
		// leave blocks open at the end of the input
		tree := g.Program(4)
		body := ir.N(ir.Block, "", g.Stmt(1, false, 2))
		switch r.Intn(3, "tail") {
		case 0:
			tree.Kids = append(tree.Kids, body)
		case 1:
			tree.Kids = append(tree.Kids, &ir.Node{K: ir.FuncDecl, Op: "tailfn", Params: []string{}, Kids: []*ir.Node{body}})
		default:
			tree.Kids = append(tree.Kids, ir.N(ir.If, "", ir.N(ir.Ident, "c"), ir.N(ir.Block, "", ir.N(ir.While, "", ir.N(ir.Ident, "d"), body)), nil))
		}
		orig, toks := layout.Source(r, tree, layout.Options{Random: true, ASI: true})
		// cut before the k-th last closing brace, provided only closing braces follow
		cut := -1
		k := 1 + r.Intn(2, "nopen")
		for i := len(toks) - 1; i >= 0 && k > 0; i-- {
			tk := toks[i]
			if tk.Kind == layout.EOF || tk.Rendered == "" {
				continue
			}
			if tk.Role == layout.BlockClose {
				cut = tk.Off
				k--
				continue
			}
			break
		}
		if cut < 0 {
			return c13Case{Kind: "same", Src: orig}
		}
		return c13Case{Kind: "open-block", Orig: orig, Src: orig[:cut]}
	default:
		tree := g.Program(6)
		// statement pairs (A, B): A ends in every kind of expression end, B begins
		// with `(` or `[`; in smart mode a line break between them separates them
		for i, n := 0, r.Intn(4, "npairs"); i < n; i++ {
			var a *ir.Node
			x, y := ir.N(ir.Ident, r.Ident()), ir.N(ir.Ident, r.Ident())
			switch r.Intn(10, "pairA") {
			case 0:
				a = ir.N(ir.ExprStmt, "", x)
			case 1:
				a = ir.N(ir.ExprStmt, "", ir.N(ir.Call, "", x, y))
			case 2:
				a = ir.N(ir.Let, r.Ident(), ir.N(ir.Index, "", x, ir.N(ir.Num, "0")))
			case 3:
				a = ir.N(ir.ExprStmt, "", ir.N(ir.Assign, "=", ir.N(ir.Ident, r.Ident()), ir.N(ir.Index, "", ir.N(ir.Index, "", x, y), ir.N(ir.Ident, r.Ident()))))
			case 4:
				a = ir.N(ir.ExprStmt, "", ir.N(ir.Member, r.Ident(), x))
			case 5:
				a = ir.N(ir.Let, r.Ident(), ir.N(ir.Array, "", x, y))
			case 6:
				a = ir.N(ir.ExprStmt, "", ir.N(ir.Postfix, "++", x))
			case 7:
				a = ir.N(ir.Let, r.Ident(), ir.N(ir.Binary, "+", x, ir.N(ir.Num, "1")))
			case 8:
				a = ir.N(ir.Let, r.Ident(), ir.N(ir.Unary, "-", x))
			default:
				a = ir.N(ir.Let, r.Ident(), gen.StrOf("s", "'"))
			}
			var b *ir.Node
			if r.Bool("pairB") {
				b = ir.N(ir.ExprStmt, "", ir.N(ir.Call, "", ir.N(ir.Member, r.Ident(), ir.N(ir.Array, "", ir.N(ir.Num, "1"), y)), ir.N(ir.Ident, r.Ident())))
			} else {
				b = ir.N(ir.ExprStmt, "", ir.N(ir.Call, "", ir.N(ir.Member, r.Ident(), ir.N(ir.Binary, "||", y, ir.N(ir.Ident, r.Ident())))))
			}
			tree.Kids = append(tree.Kids, a, b)
		}
		opt := layout.Options{Random: true, ASI: true, SmartASI: true, Comments: r.Bool("comments")}
		src, toks := layout.Source(r, tree, opt)
		var b strings.Builder
		last := 0
		n := 0
		for i, tk := range toks {
			if (tk.Text == "(" || tk.Text == "[") && tk.Kind == layout.Punct && strings.Contains(tk.Gap, "\n") {
				if p := prevRendered(toks, i); p != nil && (p.EndsExpr) {
					b.WriteString(src[last:tk.Off])
					b.WriteString(";")
					last = tk.Off
					n++
				}
			}
		}
		b.WriteString(src[last:])
		return c13Case{Kind: "smart", Src: src, Ins: b.String(), NLeading: n}
	}
}

func c13Exhaustive(rec *evid.Recorder, report func(c13Case)) {
	n := 6
	if thorough() {
		n = 150
	}
	for _, src := range sweepPrograms(n) {
		singleEdits(src, func(what, text string) {
			rec.Class("sweep:corrupted-texts")
			report(c13Case{Kind: "corrupt", Src: text})
		})
	}
	rec.Exhaustive("tolerant mode on every single-lexeme edit and lexeme-boundary truncation of the swept programs")
}

func nextTok(toks []*layout.Tok, i int) *layout.Tok {
	for j := i + 1; j < len(toks); j++ {
		if toks[j].Rendered != "" && toks[j].Kind != layout.EOF {
			return toks[j]
		}
	}
	return nil
}

var c13Witnesses = []c13Case{
	{Kind: "corrupt", Src: "foo(a, b"}, {Kind: "corrupt", Src: "let x = (1 + 2"}, {Kind: "corrupt", Src: "let o = {k: 1"}, {Kind: "corrupt", Src: "x = arr[i"}, {Kind: "corrupt", Src: "function f(a, b"},
	{Kind: "corrupt", Src: "if (a) { b c 1 .d"}, {Kind: "corrupt", Src: "while (i < 10"}, {Kind: "corrupt", Src: "let"}, {Kind: "corrupt", Src: "a b c { d { e"},
	{Kind: "join", Orig: "let a = 1; let b = 2", Src: "let a = 1 let b = 2"},
	{Kind: "join", Orig: "a = b\nc()", Src: "a = b c()"},
	{Kind: "open-block", Orig: "function f() { if (a) { b } }", Src: "function f() { if (a) { b "},
	{Kind: "smart", Src: "a = b\n(c || d).e()\n[1, 2].f(g)", Ins: "a = b\n;(c || d).e()\n;[1, 2].f(g)", NLeading: 2},
	{Kind: "smart", Src: "f(a,\n(b))\nx = [\n[1]]", Ins: "f(a,\n(b))\nx = [\n[1]]", NLeading: 0},
	{Kind: "same", Src: "let a = 1\nfunction f(x) { return x + 1 }\nif (a) f(a); else { a = 2 }"},
}

func TestC13(t *testing.T) {
	run(t, &prop[c13Case]{ID: "C13", Gen: c13Gen, Check: c13Check, Exhaustive: c13Exhaustive, Witnesses: c13Witnesses})
}
