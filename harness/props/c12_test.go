package props

import (
	"fmt"

	"github.com/xjslang/xjs/ast"
	"strings"
	"testing"

	"pgregory.net/rapid"

	"verif/harness/evid"
	"verif/harness/gen"
	"verif/harness/ir"
	"verif/harness/layout"
	"verif/harness/shape"
)

// C12 — strict mode never silently accepts malformed programs (fault enumeration).

type c12Tok struct {
	Off  int    `json:"off"`
	Line int    `json:"line"`
	Col  int    `json:"col"`
	Text string `json:"text"`
	Kind string `json:"kind,omitempty"` // str | tpl | term | stmt (statement start) | open | close
}

type c12Case struct {
	Src  string   `json:"src"`
	Toks []c12Tok `json:"toks"`
	// Only, when non-empty, restricts the enumeration to one fault (replay of a minimal case).
	Only string `json:"only,omitempty"`
}

type c12Fault struct {
	kind   string
	desc   string
	text   string
	intact int // index into Toks of the last intact token before the corruption point (-1: none)
}

func c12Faults(c c12Case) []c12Fault {
	var out []c12Fault
	src := c.Src
	// (a) single-token deletions
	for i, t := range c.Toks {
		if t.Text == "" {
			continue
		}
		out = append(out, c12Fault{kind: "delete", desc: fmt.Sprintf("delete#%d", i), text: src[:t.Off] + " " + src[t.Off+len(t.Text):], intact: prevReal(c.Toks, i)})
	}
	// (b) statement-separator removal: join two statements with a single space
	for i, t := range c.Toks {
		if t.Kind != "term" {
			continue
		}
		p := prevReal(c.Toks, i)
		n := nextReal(c.Toks, i)
		if p < 0 || n < 0 || !strings.Contains(c.Toks[n].Kind, "stmt") {
			continue
		}
		pe := c.Toks[p].Off + len(c.Toks[p].Text)
		out = append(out, c12Fault{kind: "join", desc: fmt.Sprintf("join#%d", i), text: src[:pe] + " " + src[c.Toks[n].Off:], intact: p})
	}
	// (c) truncation inside strings, templates, brackets and blocks
	depth := 0
	for i, t := range c.Toks {
		if t.Text == "" {
			continue
		}
		if strings.HasPrefix(t.Kind, "str") || strings.HasPrefix(t.Kind, "tpl") { // also "str stmt": a literal that begins a statement
			for o := t.Off + 1; o < t.Off+len(t.Text); o++ {
				if o > t.Off+6 && o < t.Off+len(t.Text)-2 {
					continue // long literals: first and last interior offsets only
				}
				out = append(out, c12Fault{kind: "truncate-literal", desc: fmt.Sprintf("truncate@%d", o), text: src[:o], intact: prevReal(c.Toks, i)})
			}
		}
		if strings.Contains(t.Kind, "close") {
			depth--
		}
		if depth > 0 {
			// cut right before this token: inside an open bracket/block
			out = append(out, c12Fault{kind: "truncate-nesting", desc: fmt.Sprintf("truncate@%d", t.Off), text: src[:t.Off], intact: prevReal(c.Toks, i)})
		}
		if strings.Contains(t.Kind, "open") {
			depth++
		}
	}
	return out
}

func prevReal(ts []c12Tok, i int) int {
	for j := i - 1; j >= 0; j-- {
		if ts[j].Text != "" {
			return j
		}
	}
	return -1
}

func nextReal(ts []c12Tok, i int) int {
	for j := i + 1; j < len(ts); j++ {
		if ts[j].Text != "" {
			return j
		}
	}
	return -1
}

func c12Check(c c12Case, rec *evid.Recorder) *Fail {
	if ok, limited := shape.JSValidity(c.Src); limited {
		rec.Discard("reference parser limitation")
		return nil
	} else if !ok {
		return failf("generated program is not valid JavaScript\nsrc %q", c.Src).tag("harness-selfcheck")
	}
	if _, errs, err := parseX(c.Src, Mode{}); err != nil || len(errs) > 0 {
		rec.Discard("valid program rejected by xjs (C02's business)")
		return nil
	}
	nontrivial := 0
	for _, f := range c12Faults(c) {
		if c.Only != "" && f.desc != c.Only {
			continue
		}
		rec.Eval()
		if ok, limited := shape.JSValidity(f.text); limited {
			rec.Discard("reference parser limitation on corrupted text")
			continue
		} else if ok {
			rec.Class("still-valid:" + f.kind)
			continue
		}
		rec.Class("fault:" + f.kind)
		nontrivial++
		rec.NonTrivial(f.text)
		_, errs, err := parseX(f.text, Mode{})
		if err == nil && len(errs) == 0 {
			return c12Tag(failf("strict mode accepts a corrupted program without error (%s)\ncorrupted %q\noriginal  %q", f.desc, f.text, c.Src), f, c)
		}
		if (err == nil) != (len(errs) == 0) {
			return failf("error value and error list disagree on %q", f.text)
		}
		if f.intact >= 0 {
			it := c.Toks[f.intact]
			e := errs[0].Range.Start
			if e.Line < it.Line || (e.Line == it.Line && e.Column < it.Col) {
				return failf("first error %q at %d:%d lies before the last intact token %q at %d:%d (%s)\ncorrupted %q", errs[0].Message, e.Line, e.Column, it.Text, it.Line, it.Col, f.desc, f.text).tag("error-too-early")
			}
		}
		rec.Class("site:" + siteOf(errs[0].Message))
	}
	if nontrivial > 0 {
		rec.Sample(len(c.Src), map[string]interface{}{"src": c.Src, "faults_rejected_by_reference": nontrivial})
	}
	return nil
}

func siteOf(msg string) string {
	switch {
	case strings.HasSuffix(msg, " expected"):
		return msg
	case strings.HasPrefix(msg, "unexpected"):
		return "unexpected token"
	case strings.HasPrefix(msg, "could not parse"):
		return "numeric validation"
	case strings.HasPrefix(msg, "unclosed block"):
		return "unclosed block"
	}
	return "other"
}

// c12Tag classifies silent acceptances by what was corrupted.
func c12Tag(f *Fail, ft c12Fault, c c12Case) *Fail {
	// what did xjs make of the corrupted text?
	if prog, errs, err := parseX(ft.text, Mode{}); err == nil && len(errs) == 0 {
		walkAST(prog, func(n ast.Node, parent ast.Node, field string) {
			switch v := n.(type) {
			case *ast.MemberExpression:
				if !v.Computed {
					if _, ok := v.Property.(*ast.Identifier); !ok {
						f.tag("non-identifier-member-property-accepted")
					}
				}
				if _, ok := v.Object.(*ast.PostfixExpression); ok {
					f.tag("postfix-result-continued")
				}
			case *ast.CallExpression:
				if _, ok := v.Function.(*ast.PostfixExpression); ok {
					f.tag("postfix-result-continued")
				}
			case *ast.PostfixExpression:
				if _, ok := v.Left.(*ast.PostfixExpression); ok {
					f.tag("postfix-result-continued")
				}
			case *ast.LetStatement, *ast.FunctionDeclaration:
				switch parent.(type) {
				case *ast.IfStatement, *ast.WhileStatement, *ast.ForStatement:
					f.tag("declaration-as-body-accepted")
				}
			}
		})
	}
	_, rerr := shape.ParseJS(ft.text)
	if rerr != nil {
		f.Msg += "\nreference parser: " + rerr.Error()
		if strings.Contains(rerr.Error(), "Illegal return statement") && strings.Count(rerr.Error(), "and ") <= 1 {
			f.tag("return-outside-function-accepted")
		}
		if strings.Contains(rerr.Error(), "Invalid left-hand side in assignment") || strings.Contains(rerr.Error(), "Invalid destructuring assignment target") {
			// the reference parser's only complaint is an assignment / update target
			f.tag("invalid-target-accepted")
		}
	}
	return f
}

func c12Gen(t *rapid.T, rec *evid.Recorder) c12Case {
	r := gen.R{T: t}
	// never scaled up: every token of the program is a fault point, and each fault costs two parses of the whole text
	g := &gen.Syn{R: r, MaxDepth: 1 + r.Intn(3, "depth"), StmtDepth: r.Intn(3, "sdepth"), RichStr: true, Tpl: true, MultiTpl: true, NoScale: true}
	tree := g.Program(4)
	opt := layout.Options{Random: true, ASI: r.Bool("asi"), Comments: r.Bool("comments")}
	if r.Intn(4, "head") == 0 {
		// a program whose first byte opens something: a directive-like string
		// statement, a backtick string, a block, an array, a group - so that the
		// corruptions reach the very first token (position 0:0)
		var head *ir.Node
		switch r.Intn(6, "headkind") {
		case 0:
			head = ir.N(ir.ExprStmt, "", gen.StrOf("use strict", []string{"\"", "'"}[r.Intn(2, "hq")]))
		case 1:
			head = ir.N(ir.ExprStmt, "", ir.N(ir.Tpl, "head text"))
		case 2:
			head = ir.N(ir.Block, "", ir.N(ir.ExprStmt, "", ir.N(ir.Ident, "h")))
		case 3:
			head = ir.N(ir.ExprStmt, "", ir.N(ir.Array, "", ir.N(ir.Ident, "h"), ir.N(ir.Num, "1")))
		case 4:
			head = &ir.Node{K: ir.Block, Kids: []*ir.Node{}}
		default:
			head = ir.N(ir.ExprStmt, "", ir.N(ir.Call, "", ir.N(ir.Ident, "h"), r.RichStr(3)))
		}
		tree.Kids = append([]*ir.Node{head}, tree.Kids...)
		opt.GapOverride = func(ch layout.Chooser, prev, next *layout.Tok) (string, bool) { return "", prev == nil }
		rec.Class("program:first-byte-opens-a-construct")
	}
	src, toks := layout.Source(r, tree, opt)
	c := c12Case{Src: src}
	for _, tk := range toks {
		if tk.Kind == layout.EOF {
			continue
		}
		ct := c12Tok{Off: tk.Off, Line: tk.Line, Col: tk.Col, Text: tk.Rendered}
		switch tk.Kind {
		case layout.String:
			ct.Kind = "str"
		case layout.Template:
			ct.Kind = "tpl"
		case layout.Term:
			ct.Kind = "term"
		}
		switch tk.Role {
		case layout.CallOpen, layout.GroupOpen, layout.IndexOpen, layout.ArrayOpen, layout.BlockOpen, layout.ObjOpen:
			ct.Kind += " open"
		case layout.CallClose, layout.GroupClose, layout.IndexClose, layout.ArrayClose, layout.BlockClose, layout.ObjClose:
			ct.Kind += " close"
		}
		if tk.Text == "(" && tk.Role == layout.NoRole {
			ct.Kind += " open"
		}
		if tk.Text == ")" && tk.Role == layout.NoRole {
			ct.Kind += " close"
		}
		if tk.StmtStart {
			ct.Kind += " stmt"
		}
		c.Toks = append(c.Toks, ct)
	}
	return c
}

func TestC12(t *testing.T) {
	run(t, &prop[c12Case]{ID: "C12", Gen: c12Gen, Check: c12Check})
}

// c12Of builds a case from (gap, text, kind) triples (used for witnesses).
func c12Of(only string, parts ...string) c12Case {
	var c c12Case
	line, col := 0, 0
	var b strings.Builder
	adv := func(t string) {
		b.WriteString(t)
		for i := 0; i < len(t); i++ {
			if t[i] == '\n' {
				line++
				col = 0
			} else {
				col++
			}
		}
	}
	for i := 0; i+2 < len(parts); i += 3 {
		adv(parts[i])
		c.Toks = append(c.Toks, c12Tok{Off: b.Len(), Line: line, Col: col, Text: parts[i+1], Kind: parts[i+2]})
		adv(parts[i+1])
	}
	c.Src = b.String()
	c.Only = only
	return c
}
