//go:build verif

package props

import (
	"fmt"
	"reflect"
	"runtime"
	"strings"
	"sync"
	"testing"

	"github.com/xjslang/xjs/ast"
	"github.com/xjslang/xjs/compiler"
	"github.com/xjslang/xjs/debug"
	"github.com/xjslang/xjs/lexer"
	"github.com/xjslang/xjs/parser"
	"github.com/xjslang/xjs/token"
	"pgregory.net/rapid"

	"verif/harness/evid"
	"verif/harness/gen"
	"verif/harness/ir"
	"verif/harness/layout"
)

// C14 — instances are isolated and results deterministic, also under concurrency.

type c14Spec struct {
	Mode Mode    `json:"mode"`
	Ops  []c05Op `json:"ops,omitempty"`
	Icpt int     `json:"icpt,omitempty"` // number of pass-through interceptors of each kind
}

type c14Job struct {
	Builder int `json:"b"`
	Input   int `json:"i"`
	Cfg     int `json:"c"`
	Tree    int `json:"t"` // >=0: compile shared tree t instead of parsing
}

type c14Case struct {
	Specs   []c14Spec  `json:"specs"`
	Inputs  []string   `json:"inputs"`
	Jobs    [][]c14Job `json:"jobs"` // one list per goroutine (a single list = sequential history)
	Procs   int        `json:"procs,omitempty"`
	Repeats int        `json:"repeats,omitempty"`
}

var c14Cfgs = []Cfg{{}, {Map: true}, {Pretty: true, Indent: 99}, {Pretty: true, Indent: 99, Map: true}, {Pretty: true, Indent: -1, NoSemi: true}, {Pretty: true, Indent: 3, NoSemi: true, Map: true}}

// c14MakeBuilder: the specs are valid by construction (each custom lexeme gets
// one role per builder), so a refused registration can only come from state
// that leaked in from another builder or parser.
func c14MakeBuilder(s c14Spec) *parser.Builder {
	pb, err := c05Build(s.Ops)
	if err != nil {
		panic(c14Leak{fmt.Sprintf("registering %+v on a new builder is refused (%v) although the same registrations succeed on a builder used alone", s.Ops, err)})
	}
	if s.Mode.Tolerant {
		pb.WithTolerantMode(true)
	}
	if s.Mode.Smart {
		pb.WithSmartSemicolon(true)
	}
	// one more token type whose name is this builder's own: builders with the same
	// number of operators give it the same id under different names
	pb.LexerBuilder.RegisterTokenType(fmt.Sprintf("own-%v-%v-%d", s.Mode.Tolerant, s.Mode.Smart, s.Icpt))
	for i := 0; i < s.Icpt; i++ {
		pb.UseStatementInterceptor(func(p *parser.Parser, next func() ast.Statement) ast.Statement { return next() })
		pb.UseExpressionInterceptor(func(p *parser.Parser, next func() ast.Expression) ast.Expression { return next() })
		pb.LexerBuilder.UseTokenInterceptor(func(l *lexer.Lexer, next func() token.Token) token.Token { return next() })
	}
	return pb
}

// c14Tokens: the token stream (numeric types included, so that dynamic token
// ids are part of the result) a lexer built from the builder's lexer builder gives.
func c14Tokens(pb *parser.Builder, input string) string {
	l := pb.LexerBuilder.Build(input)
	var b strings.Builder
	for i := 0; i < len(input)+3; i++ {
		t := l.NextToken()
		fmt.Fprintf(&b, "%d:%q@%d:%d ", int(t.Type), t.Literal, t.Start.Line, t.Start.Column)
		if t.Type == token.EOF {
			break
		}
	}
	// how this builder's dynamic token types print (part of every error message
	// and token dump that mentions one)
	for id := token.Type(token.DYNAMIC_TOKENS_START); id < token.Type(token.DYNAMIC_TOKENS_START)+7; id++ {
		fmt.Fprintf(&b, "|%d=%s", int(id), id.String())
	}
	return b.String()
}

func c14Digest(toks string, prog *ast.Program, errs []parser.ParserError, cfg Cfg, c *compiler.Compiler) string {
	var b strings.Builder
	fmt.Fprintf(&b, "tokens=%s|errors=%v|", toks, errs)
	if len(errs) == 0 && prog != nil {
		res := c.Compile(prog)
		b.WriteString(res.Code)
		if sm := res.SourceMap; sm != nil {
			// the whole map as returned - and then the caller fills in its own file
			// data, as every user of the map does: a result object shared between
			// compilations would show it to the next one
			fmt.Fprintf(&b, "|map=%s|names=%v|version=%d|file=%q|root=%q|sources=%q|content=%q", sm.Mappings, sm.Names, sm.Version, sm.File, sm.SourceRoot, sm.Sources, sm.SourcesContent)
			sm.File = "out.js"
			sm.SourceRoot = "/src"
			sm.Sources = append(sm.Sources, "in.xjs")
			sm.SourcesContent = append(sm.SourcesContent, "...")
			if len(sm.Names) > 0 {
				sm.Names[0] = "overwritten-by-the-caller"
			}
		}
	}
	return b.String()
}

type c14Leak struct{ msg string }

func c14Check(c c14Case, rec *evid.Recorder) (fl *Fail) {
	rec.Eval()
	defer func() {
		if r := recover(); r != nil {
			if lk, ok := r.(c14Leak); ok {
				fl = failf("%s", lk.msg)
				return
			}
			panic(r)
		}
	}()
	if c.Procs > 0 {
		defer runtime.GOMAXPROCS(runtime.GOMAXPROCS(c.Procs))
	}
	kwSnap := map[string]token.Type{}
	for k, v := range token.Keywords {
		kwSnap[k] = v
	}
	precSnap := parser.VerifBuiltinPrecedences()

	// reference: every (builder spec, input, cfg) computed alone, from scratch, on this goroutine
	type key struct{ b, i, c int }
	ref := map[key]string{}
	refTree := map[[2]int]*ast.Program{}
	alone := func(b, i, cf int) string {
		k := key{b, i, cf}
		if v, ok := ref[k]; ok {
			return v
		}
		pb := c14MakeBuilder(c.Specs[b])
		p := pb.Build(c.Inputs[i])
		prog, _ := p.ParseProgram()
		v := c14Digest(c14Tokens(pb, c.Inputs[i]), prog, p.Errors(), c14Cfgs[cf], c14Cfgs[cf].compiler())
		ref[k] = v
		return v
	}
	for _, js := range c.Jobs {
		for _, j := range js {
			alone(j.Builder, j.Input, j.Cfg)
		}
	}
	// shared objects
	builders := make([]*parser.Builder, len(c.Specs))
	for i, s := range c.Specs {
		builders[i] = c14MakeBuilder(s)
	}
	compilers := make([]*compiler.Compiler, len(c14Cfgs))
	for i, cf := range c14Cfgs {
		compilers[i] = cf.compiler()
	}
	// shared trees: parsed once per (builder, input), compiled many times by many goroutines
	var treeMu sync.Mutex
	type shared struct {
		prog *ast.Program
		errs []parser.ParserError
	}
	trees := map[[2]int]*shared{}
	getTree := func(b, i int) *shared {
		treeMu.Lock()
		defer treeMu.Unlock()
		k := [2]int{b, i}
		if t, ok := trees[k]; ok {
			return t
		}
		p := builders[b].Build(c.Inputs[i])
		prog, _ := p.ParseProgram()
		t := &shared{prog, p.Errors()}
		trees[k] = t
		return t
	}
	_ = refTree
	repeats := c.Repeats
	if repeats <= 0 {
		repeats = 1
	}
	var failMu sync.Mutex
	var fail *Fail
	setFail := func(f *Fail) {
		failMu.Lock()
		if fail == nil {
			fail = f
		}
		failMu.Unlock()
	}
	for rep := 0; rep < repeats; rep++ {
		var wg sync.WaitGroup
		start := make(chan struct{})
		for g, js := range c.Jobs {
			wg.Add(1)
			go func(g int, js []c14Job) {
				defer wg.Done()
				defer func() {
					if r := recover(); r != nil {
						setFail(failf("goroutine %d panicked: %v", g, r).tag("sut-panic"))
					}
				}()
				<-start
				for n, j := range js {
					var got string
					if j.Tree >= 0 {
						t := getTree(j.Builder, j.Input)
						got = c14Digest(c14Tokens(builders[j.Builder], c.Inputs[j.Input]), t.prog, t.errs, c14Cfgs[j.Cfg], compilers[j.Cfg])
					} else {
						p := builders[j.Builder].Build(c.Inputs[j.Input])
						prog, _ := p.ParseProgram()
						got = c14Digest(c14Tokens(builders[j.Builder], c.Inputs[j.Input]), prog, p.Errors(), c14Cfgs[j.Cfg], compilers[j.Cfg])
					}
					if want := ref[key{j.Builder, j.Input, j.Cfg}]; got != want {
						setFail(failf("goroutine %d job %d (builder %d %+v, input %d, %s, shared-tree=%v): result differs from the result obtained alone\nalone  %s\nshared %s\ninput %q", g, n, j.Builder, c.Specs[j.Builder], j.Input, c14Cfgs[j.Cfg], j.Tree >= 0, trunc(want, 400), trunc(got, 400), c.Inputs[j.Input]))
						return
					}
				}
			}(g, js)
		}
		close(start)
		wg.Wait()
		if fail != nil {
			return fail
		}
	}
	// a parser is independent of what happens to its builder after Build: the
	// builder is reconfigured for the next parser (modes flipped, one more
	// interceptor) and used, and only then the first parser parses
	probes := append([]string{"a\n(b)\n[c]\nlet f = g\n(1)", "let x = 1 let y = 2\nif (x) { y\n{ z", "x++ y\n(z)"}, c.Inputs...)
	for b := 0; b < len(c.Specs) && b < 3; b++ {
		for i := 0; i < len(probes) && i < 5; i++ {
			aloneB := c14MakeBuilder(c.Specs[b])
			ap := aloneB.Build(probes[i])
			aprog, _ := ap.ParseProgram()
			want := c14Digest("", aprog, ap.Errors(), Cfg{}, compiler.New())

			pb := c14MakeBuilder(c.Specs[b])
			p1 := pb.Build(probes[i])
			pb.WithTolerantMode(!c.Specs[b].Mode.Tolerant)
			pb.WithSmartSemicolon(!c.Specs[b].Mode.Smart)
			late := 0
			pb.UseStatementInterceptor(func(p *parser.Parser, next func() ast.Statement) ast.Statement { late++; return next() })
			pb.UseExpressionInterceptor(func(p *parser.Parser, next func() ast.Expression) ast.Expression { late++; return next() })
			p2 := pb.Build(probes[(i+1)%len(probes)])
			p2.ParseProgram()
			before := late
			prog1, _ := p1.ParseProgram()
			if late != before {
				return failf("an interceptor installed on the builder after Build runs in the parser built before (builder %+v)\ninput %q", c.Specs[b], probes[i])
			}
			if got := c14Digest("", prog1, p1.Errors(), Cfg{}, compiler.New()); got != want {
				return failf("a parser built before its builder was reconfigured (modes flipped, interceptors added, another parser built and used) gives a different result than a parser of the same configuration used alone (builder %+v)\nalone %s\nlate  %s\ninput %q", c.Specs[b], trunc(want, 400), trunc(got, 400), probes[i])
			}
			rec.Class("history:builder-reconfigured-after-build")
		}
	}
	// global tables untouched
	if !reflect.DeepEqual(kwSnap, token.Keywords) {
		return failf("token.Keywords changed during the run")
	}
	if !reflect.DeepEqual(precSnap, parser.VerifBuiltinPrecedences()) {
		return failf("the package-level binding-power table changed during the run: %v", parser.VerifBuiltinPrecedences())
	}
	// compile never modifies the tree; map on/off gives the same code; debug string = compact compile
	for k, t := range trees {
		if len(t.errs) > 0 || t.prog == nil {
			continue
		}
		p2 := builders[k[0]].Build(c.Inputs[k[1]])
		fresh, _ := p2.ParseProgram()
		if !reflect.DeepEqual(t.prog, fresh) {
			return failf("a tree that was compiled differs from a fresh parse of the same input (compiling modified it, or parsing is not deterministic)\ninput %q", c.Inputs[k[1]])
		}
		for _, cf := range []Cfg{{}, {Pretty: true, Indent: 99}, {Pretty: true, Indent: -1, NoSemi: true}} {
			a := cf.compiler().Compile(t.prog).Code
			m := cf
			m.Map = true
			b := m.compiler().Compile(t.prog).Code
			if a != b {
				return failf("[%s] requesting a source map changes the code\nwithout %q\nwith    %q", cf, a, b)
			}
		}
		if ds, cc := debug.ToString(t.prog), compiler.New().Compile(t.prog).Code; ds != cc {
			return failf("debug.ToString differs from the compact compilation\ndebug   %q\ncompact %q", ds, cc)
		}
		for _, st := range t.prog.Statements {
			one := &ast.Program{Statements: []ast.Statement{st}}
			if ds, cc := debug.ToString(st), compiler.New().Compile(one).Code; ds != cc {
				return failf("debug.ToString(statement) differs from compiling it alone\ndebug   %q\ncompact %q", ds, cc)
			}
			if es, ok := st.(*ast.ExpressionStatement); ok && es.Expression != nil {
				// expression nodes: the string form is the compact form of the statement minus its terminator
				e, whole := debug.ToString(es.Expression), debug.ToString(st)
				if whole != e+";" && whole != "("+e+");" {
					return failf("debug.ToString(expression) is not the compact form of the expression\nexpression %q\nstatement  %q", e, whole)
				}
			}
		}
	}
	distinctSpecs := map[string]bool{}
	for _, s := range c.Specs {
		distinctSpecs[fmt.Sprintf("%+v", s)] = true
	}
	njobs := 0
	for _, js := range c.Jobs {
		njobs += len(js)
	}
	if len(distinctSpecs) >= 2 && njobs >= 4 {
		rec.NonTrivial(fmt.Sprintf("%v|%v|%v", c.Specs, c.Inputs, c.Jobs))
	}
	rec.Class(fmt.Sprintf("goroutines:%d", len(c.Jobs)))
	rec.Sample(njobs, map[string]interface{}{"specs": c.Specs, "goroutines": len(c.Jobs), "jobs": njobs, "inputs": len(c.Inputs)})
	return nil
}

func c14Gen(t *rapid.T, rec *evid.Recorder) c14Case {
	r := gen.R{T: t}
	var c c14Case
	lexemes := []string{"@", "#", "^", "~", "?"}
	for i, n := 0, 2+r.Intn(5, "nspecs"); i < n; i++ {
		s := c14Spec{Mode: allModes[r.Intn(4, "mode")], Icpt: r.Intn(3, "icpt")}
		// the same lexemes (and hence the same dynamic token ids, allocated from
		// 1000 upwards in each builder) get different roles in different builders
		for k, m := 0, r.Intn(4, "nops"); k < m; k++ {
			lx := lexemes[k]
			role := []string{"infix", "prefix", "postfix"}[r.Intn(3, "role")]
			s.Ops = append(s.Ops, c05Op{Lexeme: lx, Role: role, Level: 2 + r.Intn(12, "level")})
		}
		c.Specs = append(c.Specs, s)
	}
	g := &gen.Syn{R: r, MaxDepth: 1 + r.Intn(3, "depth"), StmtDepth: r.Intn(3, "sdepth"), Tpl: true, RichStr: true, MultiTpl: true}
	for i, n := 0, 2+r.Intn(5, "ninputs"); i < n; i++ {
		tree := g.Program(4)
		if r.Intn(3, "escapes") == 0 {
			// a statement full of escapes of every family (the lexer decodes and re-encodes them)
			args := []*ir.Node{ir.N(ir.Ident, "print")}
			for k, m := 0, 2+r.Intn(6, "nstr"); k < m; k++ {
				args = append(args, r.RichStr(10))
			}
			tree.Kids = append(tree.Kids, ir.N(ir.ExprStmt, "", ir.N(ir.Call, "", args...)))
		}
		src, toks := layout.Source(r, tree, layout.Options{Random: true, ASI: true, Comments: true})
		switch r.Intn(5, "inputkind") {
		case 4:
			// nothing to map: empty, white space only, comments only
			src = []string{"", "\n\n  \n", "// only a comment\n", "// a\n\n// b"}[r.Intn(4, "emptykind")]
		case 0:
			src = mutateTokens(r, toks)
		case 1:
			// custom lexemes of some builder's grammar
			src += "\nx " + lexemes[r.Intn(len(lexemes), "lx")] + " y " + lexemes[r.Intn(len(lexemes), "lx")]
		}
		c.Inputs = append(c.Inputs, src)
	}
	ngo := 1
	if r.Intn(3, "concurrent") > 0 {
		ngo = 2 + r.Intn(15, "ngoroutines")
		c.Procs = []int{2, 4, 16}[r.Intn(3, "procs")]
		c.Repeats = 1 + r.Intn(3, "repeats")
	}
	for gi := 0; gi < ngo; gi++ {
		var js []c14Job
		for k, m := 0, 1+r.Intn(12, "njobs"); k < m; k++ {
			j := c14Job{Builder: r.Intn(len(c.Specs), "b"), Input: r.Intn(len(c.Inputs), "i"), Cfg: r.Intn(len(c14Cfgs), "cfg"), Tree: -1}
			if r.Bool("sharedtree") {
				j.Tree = 0
			}
			js = append(js, j)
		}
		c.Jobs = append(c.Jobs, js)
	}
	return c
}

func TestC14(t *testing.T) {
	run(t, &prop[c14Case]{ID: "C14", Gen: c14Gen, Check: c14Check})
}
