//go:build verif

package props

import (
	"fmt"
	"testing"
	"time"

	"github.com/xjslang/xjs/ast"
	"github.com/xjslang/xjs/lexer"
	"github.com/xjslang/xjs/parser"
	"github.com/xjslang/xjs/token"
	"pgregory.net/rapid"

	"verif/harness/evid"
	"verif/harness/gen"
	"verif/harness/ir"
	"verif/harness/layout"
)

// C16 — parsing-context queries reflect the real nesting.

type c16Tok struct {
	Line int    `json:"l"`
	Col  int    `json:"c"`
	Ctx  string `json:"x"` // enclosing constructs, outermost first: B = plain block, F = function body
}

type c16Case struct {
	Src   string   `json:"src"`
	Valid bool     `json:"valid"`
	Toks  []c16Tok `json:"toks,omitempty"`
	// Nested parse: at the listed interceptor invocations (0-based, counted over
	// the outer parse only) the interceptor builds a second parser from the
	// *same* builder and parses NestedSrc to the end before it lets the outer
	// parse continue (a plugin expanding an embedded snippet).  Both parsers'
	// answers must keep reflecting their own source.
	NestedSrc  string   `json:"nested_src,omitempty"`
	NestedToks []c16Tok `json:"nested_toks,omitempty"`
	NestedAt   []int    `json:"nested_at,omitempty"`
	// Query: cyclic pattern saying at which interceptor invocations the two
	// questions are asked at all (empty = at every invocation).  A plugin that
	// asks only now and then must get the right answer too.
	Query []bool `json:"query,omitempty"`
	// Kinds: which interceptors the builder gets - 0 both, 1 statement only,
	// 2 expression only (the answers must not depend on what else is installed)
	Kinds int `json:"kinds,omitempty"`
	// Reentrant: the interceptors do not call next() but parse the construct
	// themselves through the parser's exported functions (Parse*Statement for the
	// current keyword; ParsePrefixExpression + ParseRemainingExpression), as the
	// plugins of the repository's integration tests do.
	Reentrant bool `json:"reentrant,omitempty"`
}

type c16Obs struct {
	nested    bool
	kind      string
	line, col int
	lit       string
	inFn      bool
	ctx       parser.ContextType
}

func c16Run(c c16Case, m Mode) (obs []c16Obs, final parser.ContextType, finalInFn bool, depth int, nestedBad string, panicked interface{}, hung bool) {
	src := c.Src
	done := make(chan struct{})
	at := map[int]bool{}
	for _, i := range c.NestedAt {
		at[i] = true
	}
	go func() {
		defer func() {
			panicked = recover()
			close(done)
		}()
		pb := parser.NewBuilder(lexer.NewBuilder())
		if m.Tolerant {
			pb.WithTolerantMode(true)
		}
		if m.Smart {
			pb.WithSmartSemicolon(true)
		}
		level, outerCalls, allCalls := 0, 0, 0
		observe := func(kind string, p *parser.Parser) {
			t := p.CurrentToken
			ask := len(c.Query) == 0 || c.Query[allCalls%len(c.Query)]
			allCalls++
			if ask {
				obs = append(obs, c16Obs{level > 0, kind, t.Start.Line, t.Start.Column, t.Literal, p.IsInFunction(), p.CurrentContext()})
			}
			if level > 0 {
				return
			}
			k := outerCalls
			outerCalls++
			if at[k] && c.NestedSrc != "" {
				level++
				np := pb.Build(c.NestedSrc)
				nd0 := np.VerifContextDepth()
				np.ParseProgram()
				if np.CurrentContext() != parser.GlobalContext || np.IsInFunction() || np.VerifContextDepth() != nd0 {
					nestedBad = fmt.Sprintf("nested parser after ParseProgram: CurrentContext()=%d IsInFunction()=%v depth=%d", np.CurrentContext(), np.IsInFunction(), np.VerifContextDepth())
				}
				level--
				// the outer parser's answers must not have moved
				obs = append(obs, c16Obs{false, kind + "(after nested parse)", t.Start.Line, t.Start.Column, t.Literal, p.IsInFunction(), p.CurrentContext()})
			}
		}
		useStmt, useExpr := pb.UseStatementInterceptor, pb.UseExpressionInterceptor
		if c.Kinds == 2 {
			useStmt = func(parser.Interceptor[ast.Statement]) *parser.Builder { return pb }
		}
		if c.Kinds == 1 {
			useExpr = func(parser.Interceptor[ast.Expression]) *parser.Builder { return pb }
		}
		useStmt(func(p *parser.Parser, next func() ast.Statement) ast.Statement {
			observe("stmt", p)
			if c.Reentrant {
				switch p.CurrentToken.Type {
				case token.LET:
					if s := p.ParseLetStatement(); s != nil {
						return s
					}
					return nil
				case token.FUNCTION:
					if s := p.ParseFunctionStatement(); s != nil {
						return s
					}
					return nil
				case token.RETURN:
					if s := p.ParseReturnStatement(); s != nil {
						return s
					}
					return nil
				case token.IF:
					if s := p.ParseIfStatement(); s != nil {
						return s
					}
					return nil
				case token.WHILE:
					if s := p.ParseWhileStatement(); s != nil {
						return s
					}
					return nil
				case token.FOR:
					if s := p.ParseForStatement(); s != nil {
						return s
					}
					return nil
				case token.LBRACE:
					if s := p.ParseBlockStatement(); s != nil {
						return s
					}
					return nil
				}
			}
			return next()
		})
		useExpr(func(p *parser.Parser, next func() ast.Expression) ast.Expression {
			observe("expr", p)
			if c.Reentrant {
				return p.ParseRemainingExpression(p.ParsePrefixExpression())
			}
			return next()
		})
		p := pb.Build(src)
		depth0 := p.VerifContextDepth()
		p.ParseProgram()
		// the stack must be back where a fresh parser has it (how top level is
		// represented - a sentinel entry or an empty stack - is the parser's business)
		final, finalInFn, depth = p.CurrentContext(), p.IsInFunction(), p.VerifContextDepth()-depth0+1
	}()
	select {
	case <-done:
	case <-time.After(30 * time.Second):
		hung = true
	}
	return
}

func c16Check(c c16Case, rec *evid.Recorder) *Fail {
	modes := allModes
	if c.Valid {
		modes = allModes[:1]
	}
	for _, m := range modes {
		rec.Eval()
		obs, final, finalInFn, depth, nestedBad, pv, hung := c16Run(c, m)
		if hung {
			return failf("parse did not return (mode %+v)\nsrc %q", m, c.Src).tag("hang")
		}
		if pv != nil {
			return failf("parse panicked (mode %+v): %v\nsrc %q", m, pv, c.Src).tag("sut-panic")
		}
		if final != parser.GlobalContext || finalInFn || depth != 1 {
			return failf("after ParseProgram (mode %+v): CurrentContext()=%d IsInFunction()=%v context depth (relative to a fresh parser, 1 = unchanged)=%d; want global / false / 1\nsrc %q", m, final, finalInFn, depth, c.Src)
		}
		if nestedBad != "" {
			return failf("%s\nnested src %q\nouter src %q", nestedBad, c.NestedSrc, c.Src)
		}
		if !c.Valid {
			continue
		}
		idx := map[[2]int]string{}
		for _, t := range c.Toks {
			idx[[2]int{t.Line, t.Col}] = t.Ctx
		}
		nidx := map[[2]int]string{}
		for _, t := range c.NestedToks {
			nidx[[2]int{t.Line, t.Col}] = t.Ctx
		}
		deep, inFuncExprArg := false, false
		nestedSeen := false
		for _, o := range obs {
			ctx, ok := idx[[2]int{o.line, o.col}]
			if o.nested {
				nestedSeen = true
				ctx, ok = nidx[[2]int{o.line, o.col}]
				o.kind = "nested-parser " + o.kind
			}
			if !ok {
				return failf("%s interceptor saw current token %q at %d:%d, which is not the start of a token of the source\nsrc %q\nnested src %q", o.kind, o.lit, o.line, o.col, c.Src, c.NestedSrc)
			}
			wantFn := false
			nf := 0
			for _, ch := range ctx {
				if ch == 'F' {
					wantFn = true
					nf++
				}
			}
			if o.inFn != wantFn {
				return failf("%s interceptor at token %q %d:%d: IsInFunction()=%v but the token's nesting is %q (B=block, F=function body)\nsrc %q\nnested src %q at %v", o.kind, o.lit, o.line, o.col, o.inFn, ctx, c.Src, c.NestedSrc, c.NestedAt)
			}
			switch {
			case ctx == "":
				if o.ctx != parser.GlobalContext {
					return failf("%s interceptor at top-level token %q %d:%d: CurrentContext()=%d, want global\nsrc %q", o.kind, o.lit, o.line, o.col, o.ctx, c.Src)
				}
			case ctx[len(ctx)-1] == 'B':
				if o.ctx != parser.BlockContext {
					return failf("%s interceptor at token %q %d:%d inside a block (nesting %q): CurrentContext()=%d, want block\nsrc %q", o.kind, o.lit, o.line, o.col, ctx, o.ctx, c.Src)
				}
			default:
				if o.ctx != parser.BlockContext && o.ctx != parser.FunctionContext {
					return failf("%s interceptor at token %q %d:%d directly inside a function body (nesting %q): CurrentContext()=%d, want function or block\nsrc %q", o.kind, o.lit, o.line, o.col, ctx, o.ctx, c.Src)
				}
			}
			if nf >= 2 {
				deep = true
			}
			if nf >= 1 {
				inFuncExprArg = true
			}
		}
		if deep && inFuncExprArg {
			rec.NonTrivial(c.Src)
		}
		if nestedSeen {
			rec.Class("nested-parse-from-same-builder")
		}
		if len(c.Query) > 0 {
			rec.Class("selective-queries")
		}
		rec.ClassN("interceptor-invocations", len(obs))
	}
	if !c.Valid {
		rec.NonTrivial("malformed|" + c.Src)
	}
	rec.Class(fmt.Sprintf("valid:%v", c.Valid))
	rec.Sample(len(c.Src), map[string]interface{}{"src": c.Src, "valid": c.Valid})
	return nil
}

func c16Gen(t *rapid.T, rec *evid.Recorder) c16Case {
	r := gen.R{T: t}
	g := &gen.Syn{R: r, MaxDepth: 2 + r.Intn(4, "depth"), StmtDepth: 1 + r.Intn(4, "sdepth"), Tpl: true}
	tree := g.Program(4)
	// bias towards nesting: wrap statements into functions / blocks and put
	// function expressions into call arguments, arrays, objects and conditions
	for i, n := 0, r.Intn(4, "nwrap"); i < n; i++ {
		inner := ir.N(ir.Block, "", g.Stmt(2, true, 3), ir.N(ir.ExprStmt, "", g.FuncExpr(2)))
		fe := &ir.Node{K: ir.Func, Params: []string{"p"}, Kids: []*ir.Node{inner}}
		var st *ir.Node
		switch r.Intn(5, "wrapkind") {
		case 0:
			st = ir.N(ir.ExprStmt, "", ir.N(ir.Call, "", ir.N(ir.Ident, "f"), fe, g.Expr(2)))
		case 1:
			st = ir.N(ir.Let, "v", ir.N(ir.Array, "", g.Expr(1), fe))
		case 2:
			st = ir.N(ir.Let, "o", ir.N(ir.Object, "", ir.N(ir.Ident, "k"), fe))
		case 3:
			st = ir.N(ir.If, "", ir.N(ir.Call, "", fe), ir.N(ir.Block, "", g.Stmt(2, false, 2)), nil)
		default:
			st = &ir.Node{K: ir.FuncDecl, Op: "outer", Params: []string{}, Kids: []*ir.Node{ir.N(ir.Block, "", ir.N(ir.Return, "", fe), g.Stmt(2, true, 2))}}
		}
		tree.Kids = append(tree.Kids, st)
	}
	src, toks := layout.Source(r, tree, layout.Options{Random: true, ASI: true, Comments: r.Bool("comments")})
	c := c16Case{Src: src, Valid: true}
	if r.Intn(4, "malformed") == 0 {
		c.Src = mutateTokens(r, toks)
		c.Valid = false
		return c
	}
	c.Toks = c16Table(toks)
	c.Reentrant = r.Intn(3, "reentrant") == 0
	c.Kinds = r.Pick("kinds", 4, 1, 2)
	if c.Reentrant {
		rec.Class("reentrant-interceptors")
	}
	if r.Bool("selective") {
		for i, n := 0, 2+r.Intn(11, "qlen"); i < n; i++ {
			c.Query = append(c.Query, r.Intn(4, "ask") == 0)
		}
	}
	if r.Intn(3, "nested") == 0 {
		// a snippet with its own nesting, parsed by a second parser of the same builder
		ng := &gen.Syn{R: r, MaxDepth: 2, StmtDepth: 1 + r.Intn(3, "nsdepth")}
		ntree := ng.Program(2)
		inner := ir.N(ir.Block, "", ir.N(ir.Block, "", ng.Stmt(1, false, 2)), ir.N(ir.ExprStmt, "", ng.FuncExpr(1)))
		if r.Bool("nfunc") {
			ntree.Kids = append(ntree.Kids, &ir.Node{K: ir.FuncDecl, Op: "snip", Params: []string{}, Kids: []*ir.Node{inner}})
		} else {
			ntree.Kids = append(ntree.Kids, inner)
		}
		nsrc, ntoks := layout.Source(r, ntree, layout.Options{Random: true, ASI: true})
		c.NestedSrc, c.NestedToks = nsrc, c16Table(ntoks)
		for i, n := 0, 1+r.Intn(3, "nnested"); i < n; i++ {
			c.NestedAt = append(c.NestedAt, r.Intn(40, "nestedat"))
		}
	}
	return c
}

func c16Table(toks []*layout.Tok) (out []c16Tok) {
	for _, tk := range toks {
		if tk.Kind == layout.EOF || tk.Rendered == "" {
			continue
		}
		ctx := ""
		for _, x := range tk.Ctx {
			if x == layout.CtxFunc {
				ctx += "F"
			} else {
				ctx += "B"
			}
		}
		out = append(out, c16Tok{tk.Line, tk.Col, ctx})
	}
	return out
}

var c16Witnesses = []c16Case{
	{Src: "function f( { let", Valid: false}, {Src: "f(function(){ { ", Valid: false}, {Src: "function f() { return function() { { a } } } }", Valid: false},
	{Src: "x = function(", Valid: false}, {Src: "function (a) {}", Valid: false}, {Src: "let f = function g(a, { b }", Valid: false},
}

func TestC16(t *testing.T) {
	run(t, &prop[c16Case]{ID: "C16", Gen: c16Gen, Check: c16Check, Witnesses: c16Witnesses})
}
