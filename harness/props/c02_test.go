package props

import (
	"errors"
	"strings"
	"testing"

	"pgregory.net/rapid"

	"verif/harness/evid"
	"verif/harness/gen"
	"verif/harness/ir"
	"verif/harness/layout"
	"verif/harness/shape"
)

// C02 — the subset is parsed exactly as JavaScript parses it.

type c02Case struct {
	Tree *ir.Node `json:"tree"`
	Srcs []string `json:"srcs"`
}

func layoutFeatures(src string, toks []*layout.Tok) map[string]bool {
	f := map[string]bool{}
	for i, t := range toks {
		if t.Kind == layout.Term && t.Rendered == "" {
			f["asi"] = true
		}
		if strings.Contains(t.Gap, "//") {
			f["comment"] = true
		}
		if strings.Contains(t.Gap, "\r\n") {
			f["crlf"] = true
		}
		if t.Role == layout.GroupOpen {
			f["group"] = true
		}
		if strings.Contains(t.Gap, "\n") && !t.StmtStart && t.Kind != layout.EOF && !(t.Role == layout.BlockClose) && i > 0 {
			f["linebreak-in-construct"] = true
		}
		if t.StmtStart && strings.Contains(t.Gap, "\n") && i > 0 {
			switch {
			case t.Text == "++" || t.Text == "--":
				f["line-leading-incdec"] = true
			case t.Text == "(" || t.Text == "[" || t.Text == "-" || t.Kind == layout.Template:
				f["line-leading-hazard"] = true
			}
			if p := prevRendered(toks, i); p != nil && p.Text == "return" && p.Role == layout.Keyword {
				f["return-then-linebreak"] = true
			}
		}
	}
	return f
}

func prevRendered(toks []*layout.Tok, i int) *layout.Tok {
	for j := i - 1; j >= 0; j-- {
		if toks[j].Rendered != "" {
			return toks[j]
		}
	}
	return nil
}

func c02Layouts(r gen.R, rec *evid.Recorder, tree *ir.Node, n int) []string {
	var srcs []string
	for i := 0; i < n; i++ {
		opt := layout.Options{Random: true, ASI: true, Comments: true, CRLF: r.Intn(4, "crlf") == 0}
		if !opt.CRLF && r.Intn(8, "cr") == 0 {
			opt.CR = true // a lone carriage return is a line terminator too
		}
		if r.Bool("redundant") {
			opt.Redundant = 150
		}
		if i == 0 && r.Intn(4, "minimal") == 0 {
			opt = layout.Options{}
		}
		src, toks := layout.Source(r, tree, opt)
		for k := range layoutFeatures(src, toks) {
			rec.Class("layout:" + k)
		}
		srcs = append(srcs, src)
	}
	return srcs
}

func c02Gen(t *rapid.T, rec *evid.Recorder) c02Case {
	r := gen.R{T: t}
	g := &gen.Syn{R: r, MaxDepth: 1 + r.Intn(4, "depth"), StmtDepth: r.Intn(4, "sdepth"), RichStr: true, Tpl: true, MultiTpl: true}
	tree := g.Program(5)
	n := 3
	if thorough() {
		n = 6
	}
	return c02Case{Tree: tree, Srcs: c02Layouts(r, rec, tree, n)}
}

func c02Check(c c02Case, rec *evid.Recorder) *Fail {
	ir.Walk(c.Tree, func(n *ir.Node) { rec.Class("node:" + n.K.String()) })
	stmts := countStmts(c.Tree)
	ops, levels := countOps(c.Tree)
	for _, src := range c.Srcs {
		rec.Eval()
		j, err := shape.ParseJS(src)
		if errors.Is(err, shape.ErrRefLimit) {
			rec.Discard("reference-parser-limitation(self-check skipped)")
			j, err = c.Tree, nil
		}
		if err != nil {
			return failf("reference parser rejects generated text: %v\nsrc: %q", err, src).tag("harness-selfcheck")
		}
		if d := ir.Diff(ir.NormRel(c.Tree), ir.NormRel(j)); d != "" {
			return failf("reference parser reads a different tree than generated: %s\nsrc: %q", d, src).tag("harness-selfcheck")
		}
		x, err := parseShape(src)
		if err != nil {
			return failf("xjs does not parse a subset program: %v\nsrc: %q", err, src)
		}
		if d := ir.Diff(c.Tree, x); d != "" {
			return failf("xjs tree differs from the ECMAScript tree: %s\nsrc: %q\nwant %s\ngot  %s", d, src, trunc(ir.Sexp(c.Tree), 600), trunc(ir.Sexp(x), 600))
		}
		plain := !strings.ContainsAny(src, "\n") && !strings.Contains(src, "//")
		if (stmts >= 2 || len(levels) >= 2) && ops >= 1 && !plain {
			rec.NonTrivial(src)
		}
	}
	rec.Sample(len(c.Srcs[0]), map[string]interface{}{"src": c.Srcs[0], "tree": ir.Sexp(c.Tree)})
	return nil
}

// exhaustive operator pairs and triples: a op1 b op2 c (op3 d) with unary and
// postfix placements, minimal layout.
// c02Literals: every literal of C07's exhaustive space is a program of the
// subset, so xjs must accept it (32 literals per program, partitioned over shards).
func c02Literals(rec *evid.Recorder, report func(c02Case)) {
	sh, nsh := shard()
	var args []*ir.Node
	nb := 0
	flush := func() {
		if len(args) == 0 {
			return
		}
		if nb%nsh == sh {
			tree := ir.N(ir.Program, "", ir.N(ir.ExprStmt, "", ir.N(ir.Call, "", append([]*ir.Node{ir.N(ir.Ident, "print")}, args...)...)))
			rec.Class("literal-acceptance-programs")
			report(c02Case{Tree: tree, Srcs: []string{layout.Minimal(tree)}})
		}
		nb++
		args = nil
	}
	none := evid.New("scratch")
	c07EnumPieces(none, func(p ir.Piece) {
		for _, q := range []string{"\"", "'"} {
			args = append(args, &ir.Node{K: ir.Str, Quote: q, Pieces: []ir.Piece{p}})
			if len(args) >= 32 {
				flush()
			}
		}
	}, func(c07Lit) {})
	flush()
	rec.Exhaustive("acceptance of every single-escape string literal (\\xHH, \\uHHHH, \\u{...} sample, simple escapes, line continuations)")
}

func c02Exhaustive(rec *evid.Recorder, report func(c02Case)) {
	c02Literals(rec, report)
	if sh, _ := shard(); sh != 0 {
		return
	}
	ops := append(append([]string{}, gen.BinOps...), gen.AssignOps...)
	id := func(s string) *ir.Node { return ir.N(ir.Ident, s) }
	mk := func(op string, l, r *ir.Node) *ir.Node {
		if op == "=" || op == "+=" || op == "-=" {
			return ir.N(ir.Assign, op, l, r)
		}
		return ir.N(ir.Binary, op, l, r)
	}
	validTarget := func(n *ir.Node) bool { return n.K == ir.Ident || n.K == ir.Member || n.K == ir.Index }
	valid := func(n *ir.Node) bool {
		ok := true
		ir.Walk(n, func(x *ir.Node) {
			if x.K == ir.Assign && !validTarget(x.Kids[0]) {
				ok = false
			}
		})
		return ok
	}
	emit := func(e *ir.Node) {
		if !valid(e) {
			return
		}
		prog := ir.N(ir.Program, "", ir.N(ir.ExprStmt, "", e))
		report(c02Case{Tree: prog, Srcs: []string{layout.Minimal(prog)}})
	}
	leafs := func(name string) []*ir.Node {
		return []*ir.Node{id(name), ir.N(ir.Unary, "-", id(name)), ir.N(ir.Unary, "!", id(name)), ir.N(ir.Unary, "++", id(name)), ir.N(ir.Postfix, "--", id(name)), ir.N(ir.Call, "", id(name)), ir.N(ir.Member, "p", id(name))}
	}
	n := 0
	// all shapes of two operators: (a op1 b) op2 c and a op1 (b op2 c), operands of several forms
	for _, o1 := range ops {
		for _, o2 := range ops {
			for _, la := range leafs("a") {
				for _, lb := range leafs("b") {
					for _, lc := range leafs("c") {
						emit(mk(o2, mk(o1, la, lb), lc))
						emit(mk(o1, la, mk(o2, lb, lc)))
						n += 2
					}
				}
			}
		}
	}
	rec.Exhaustive("operator pairs x 7 operand forms, both groupings")
	if thorough() {
		for _, o1 := range ops {
			for _, o2 := range ops {
				for _, o3 := range ops {
					a, b, c, d := id("a"), id("b"), id("c"), id("d")
					emit(mk(o3, mk(o2, mk(o1, a, b), c), d))
					emit(mk(o3, mk(o1, a, mk(o2, b, c)), d))
					emit(mk(o2, mk(o1, a, b), mk(o3, c, d)))
					emit(mk(o1, a, mk(o3, mk(o2, b, c), d)))
					emit(mk(o1, a, mk(o2, b, mk(o3, c, d))))
					n += 5
				}
			}
		}
		rec.Exhaustive("operator triples, all five groupings")
	}
	rec.ClassN("exhaustive-cases", n)
}

func TestC02(t *testing.T) {
	run(t, &prop[c02Case]{ID: "C02", Gen: c02Gen, Check: c02Check, Exhaustive: c02Exhaustive})
}
