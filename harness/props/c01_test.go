package props

import (
	"strings"
	"testing"

	"pgregory.net/rapid"

	"verif/harness/evid"
	"verif/harness/gen"
	"verif/harness/ir"
	"verif/harness/jsrun"
	"verif/harness/layout"
)

// C01 — transpilation preserves program behaviour.

type c01Case struct {
	Src  string `json:"src"`
	Cfgs []Cfg  `json:"cfgs,omitempty"` // empty: tier default
}

func c01DefaultCfgs() []Cfg {
	if thorough() {
		return allCfgs()
	}
	return []Cfg{{}, {Map: true}, {Pretty: true, Indent: 99}, {Pretty: true, Indent: -1, NoSemi: true}, {Pretty: true, Indent: 0, NoSemi: true, Map: true}, {Pretty: true, Indent: 4}}
}

func c01Check(c c01Case, rec *evid.Recorder) *Fail {
	ref := jsrun.Run(c.Src)
	switch ref.Completion {
	case "engine-limitation":
		rec.Discard("engine limitation on source (goja panics on \\u{10FFFF})")
		return nil
	case "interrupted":
		rec.Discard("source run interrupted (safety timer)")
		return nil
	case "SyntaxError":
		return failf("generated program is not valid JavaScript: %s\nsrc %q", ref.Detail, c.Src).tag("harness-selfcheck")
	}
	p, errs, err := parseX(c.Src, Mode{})
	if err != nil || len(errs) > 0 {
		rec.Discard("rejected by xjs (precondition of C01 not met; C02 decides)")
		return nil
	}
	cfgs := c.Cfgs
	if len(cfgs) == 0 {
		cfgs = c01DefaultCfgs()
	}
	plain := map[Cfg]string{}
	var outputs []v8Output
	for _, cfg := range cfgs {
		rec.Eval()
		res := compile(p, cfg)
		nomap := cfg
		nomap.Map = false
		if _, ok := plain[nomap]; !ok {
			twin := cfg
			twin.Map = !cfg.Map
			plain[nomap] = compile(p, twin).Code
		}
		if prev := plain[nomap]; prev != res.Code {
			return failf("[%s] requesting a source map changes the generated code\nthis configuration %q\nits twin           %q", cfg, res.Code, prev)
		}
		if cfg.Map && res.SourceMap == nil {
			return failf("[%s] no source map returned", cfg)
		}
		outputs = append(outputs, v8Output{cfg.String(), res.Code})
		got := jsrun.Run(res.Code)
		if got.Completion == "interrupted" || got.Completion == "engine-limitation" {
			rec.Discard("output run " + got.Completion)
			continue
		}
		if !ref.Equal(got) && c01EscapedDirective(c.Src, res.Code) {
			return failf("[%s] a string statement that is no directive in the source (one of its characters is written as an escape) is emitted as the directive \"use strict\": the compiled code runs in strict mode\nsource: %s\noutput: %s %s\nsrc  %q\ncode %q", cfg, ref, got, got.Detail, c.Src, res.Code).tag("escaped-directive-becomes-directive")
		}
		if !ref.Equal(got) {
			return failf("[%s] compiled code behaves differently from the source\nsource: %s\noutput: %s %s\nsrc  %q\ncode %q", cfg, ref, got, got.Detail, c.Src, res.Code)
		}
	}
	if f := v8Pass(c.Src, ref, outputs, rec); f != nil {
		return f
	}
	rec.Class("completion:" + ref.Completion)
	ops := map[string]bool{}
	for _, op := range []string{"+", "-", "*", "/", "%", "==", "!=", "<", ">", "&&", "||", "!", "++", "--", "+=", "-=", "="} {
		if strings.Contains(c.Src, op) {
			ops[op] = true
		}
	}
	if len(ref.Prints) >= 2 && len(ops) >= 3 && (strings.Contains(c.Src, "function") || strings.Contains(c.Src, "for") || strings.Contains(c.Src, "while")) {
		rec.NonTrivial(c.Src)
	}
	rec.Sample(len(c.Src), map[string]interface{}{"src": c.Src, "prints": ref.Prints, "completion": ref.Completion})
	return nil
}

// c01EscapedDirective: the output begins with the directive "use strict" while
// the source begins (after white space and comments) with a quoted string that
// contains a backslash - i.e. a string statement that is not a directive.
func c01EscapedDirective(src, code string) bool {
	if !strings.HasPrefix(strings.TrimLeft(code, " \t\r\n"), "\"use strict\"") {
		return false
	}
	s := src
	for {
		s = strings.TrimLeft(s, " \t\r\n")
		if strings.HasPrefix(s, "//") {
			if i := strings.IndexAny(s, "\r\n"); i >= 0 {
				s = s[i:]
				continue
			}
			return false
		}
		break
	}
	if len(s) == 0 || (s[0] != '"' && s[0] != '\'') {
		return false
	}
	end := strings.IndexByte(s[1:], s[0])
	return end >= 0 && strings.Contains(s[1:1+end], "\\")
}

func c01Gen(t *rapid.T, rec *evid.Recorder) c01Case {
	r := gen.R{T: t}
	g := gen.NewExec(r)
	tree := g.Program(8)
	for k := range g.Features {
		rec.Class("feature:" + k)
	}
	opt := layout.Options{Random: true, ASI: true, Comments: true, CRLF: r.Intn(6, "crlf") == 0}
	if !opt.CRLF && r.Intn(12, "cr") == 0 {
		opt.CR = true // a lone carriage return is a line terminator too
	}
	if r.Intn(3, "redundant") == 0 {
		opt.Redundant = 80
	}
	if r.Intn(5, "minimal") == 0 {
		opt = layout.Options{}
	}
	if g.Features["escaped-directive-lookalike"] > 0 {
		// goja takes a parenthesised string statement for a directive as well (V8
		// and the specification do not): no redundant parentheses in these programs
		opt.Redundant = 0
	}
	src, toks := layout.Source(r, tree, opt)
	for k := range layoutFeatures(src, toks) {
		rec.Class("layout:" + k)
	}
	ir.Walk(tree, func(n *ir.Node) { rec.Class("node:" + n.K.String()) })
	return c01Case{Src: src}
}

var c01Witnesses = []c01Case{
	{Src: "let a = 5; let b = 2; print(a - -b, a + ++b, - -a, a-- - b, a - --b, - --a)"},
	{Src: "print(1 .toString(), (2).toString(), 3.5.toString(), 0x10.toString())"},
	{Src: "print('say \"hi\"', \"it's\", '\\x22', '\\u0022', '\\x5C', '\\u{5c}n', '\\x0A', '\\xE9', '\\uD83D\\uDE00', '\\u{1F600}')"},
	{Src: "print(`a \\` b`, `\\\\`, `x  \n  y`, 'line\\\ncont')"},
	{Src: "function f(x) { if (x > 1) return x * f(x - 1)\n return 1 }\nprint(f(5))"},
	{Src: "let i = 0\nlet j = 1\ni\n++j\nprint(i, j)"},
	{Src: "let a = 1; let b = 2; if (a) b = 3; else b = 4; print(b); (function(){ print('iife') })()"},
	{Src: "let o = {a: 1, 'b c': 2, 3: [1,2,3]}; print(o, o['b c'], o[3].length); null.x"},
	{Src: "let u; print(u); print(typeofx)"},
	{Src: "let a = 1; let b = 2; print(a < !--b, b); print(a-- > b, a)"},
}

func TestC01(t *testing.T) {
	run(t, &prop[c01Case]{ID: "C01", Gen: c01Gen, Check: c01Check, Witnesses: c01Witnesses})
}
