package props

import (
	"encoding/json"
	"fmt"
	"os"
	"path/filepath"
	"runtime/debug"
	"sort"
	"strconv"
	"strings"
	"testing"
	"time"

	"pgregory.net/rapid"

	"verif/harness/evid"
)

// Fail describes one violated clause.  Tags are narrow classifier names the
// check computes for failures it recognises; known_findings.json refers to
// them.
type Fail struct {
	Msg  string   `json:"msg"`
	Tags []string `json:"tags,omitempty"`
}

func failf(f string, a ...interface{}) *Fail { return &Fail{Msg: fmt.Sprintf(f, a...)} }

func (f *Fail) tag(t ...string) *Fail { f.Tags = append(f.Tags, t...); return f }

type knownEntry struct {
	Property    string          `json:"property"`
	ID          string          `json:"id"`
	Status      string          `json:"status"` // "known" | "fixed"
	Classifier  string          `json:"classifier"`
	Witness     json.RawMessage `json:"witness"`
	Commit      string          `json:"commit,omitempty"`
	Description string          `json:"description"`
}

func tier() string {
	if t := os.Getenv("VERIF_TIER"); t != "" {
		return t
	}
	return "quick"
}

func thorough() bool { return tier() == "thorough" }

func shard() (int, int) {
	s, _ := strconv.Atoi(os.Getenv("VERIF_SHARD"))
	n, _ := strconv.Atoi(os.Getenv("VERIF_NSHARDS"))
	if n <= 0 {
		n = 1
	}
	return s, n
}

func loadKnown(id string) []knownEntry {
	path := os.Getenv("VERIF_KNOWN")
	if path == "" {
		path = "/verif/known_findings.json"
	}
	b, err := os.ReadFile(path)
	if err != nil {
		return nil
	}
	var all struct {
		Findings []knownEntry `json:"findings"`
	}
	if err := json.Unmarshal(b, &all); err != nil {
		panic("known_findings.json: " + err.Error())
	}
	var out []knownEntry
	for _, e := range all.Findings {
		if e.Property == id {
			out = append(out, e)
		}
	}
	return out
}

type replayFile struct {
	Property string          `json:"property"`
	Case     json.RawMessage `json:"case"`
	Fail     *Fail           `json:"fail,omitempty"`
}

type prop[C any] struct {
	ID    string
	Gen   func(t *rapid.T, rec *evid.Recorder) C
	Check func(c C, rec *evid.Recorder) *Fail
	// Exhaustive, if set, enumerates a finite sub-space (shard 0 only) and
	// calls report for each case.
	Exhaustive func(rec *evid.Recorder, report func(C))
	// Witnesses are hand-written regression cases run before generation.
	Witnesses []C
}

// hangLimit: a single case normally takes micro- to milliseconds; a check that
// has not returned after this long is a call into xjs that does not terminate
// (the limit is 5-6 orders of magnitude above the normal cost, and the case is
// re-tried once with twice the time before it is reported).
func hangLimit() time.Duration {
	if s, err := strconv.Atoi(os.Getenv("VERIF_HANG_SECONDS")); err == nil && s > 0 {
		return time.Duration(s) * time.Second
	}
	return 30 * time.Second
}

func safeCheck[C any](p *prop[C], c C, rec *evid.Recorder) *Fail {
	for attempt := 0; ; attempt++ {
		done := make(chan *Fail, 1)
		go func() { done <- guardedCheck(p, c, rec) }()
		select {
		case f := <-done:
			return f
		case <-time.After(hangLimit() * time.Duration(1+attempt)):
			if attempt == 0 {
				continue
			}
			cb, _ := json.Marshal(c)
			return &Fail{Msg: fmt.Sprintf("the check of this case did not return within %v (second attempt): a call into xjs does not terminate\ncase %s", hangLimit()*2, trunc(string(cb), 1500)), Tags: []string{"hang"}}
		}
	}
}

func guardedCheck[C any](p *prop[C], c C, rec *evid.Recorder) (f *Fail) {
	defer func() {
		if r := recover(); r != nil {
			if iv, ok := r.(invariantViolation); ok {
				f = &Fail{Msg: iv.msg, Tags: []string{"compile-invariant"}}
				return
			}
			st := string(debug.Stack())
			// a panic with xjs frames between the harness and the panic site is
			// the library's; anything else is a harness fault (exit 2)
			tag := "harness-selfcheck"
			if i := strings.Index(st, "panic("); i >= 0 && strings.Contains(st[i:], "github.com/xjslang/xjs/") {
				tag = "sut-panic"
			}
			f = &Fail{Msg: fmt.Sprintf("panic in check: %v\n%s", r, st), Tags: []string{tag}}
		}
	}()
	return p.Check(c, rec)
}

func writeReplay[C any](id string, c C, f *Fail) string {
	out := os.Getenv("VERIF_REPLAY_OUT")
	if out == "" {
		return ""
	}
	cb, _ := json.Marshal(c)
	b, _ := json.MarshalIndent(replayFile{Property: id, Case: cb, Fail: f}, "", " ")
	_ = os.WriteFile(out, b, 0o644)
	return out
}

// suppressed reports whether the failure is covered by a "known" finding.
func suppressed(known []knownEntry, f *Fail) (string, bool) {
	for _, k := range known {
		if k.Status != "known" {
			continue
		}
		for _, t := range f.Tags {
			if t == k.Classifier {
				return k.ID, true
			}
		}
	}
	return "", false
}

func run[C any](t *testing.T, p *prop[C]) {
	otherUsers()
	rec := evid.New(p.ID)
	defer func() {
		if err := rec.Write(os.Getenv("VERIF_OUT")); err != nil {
			t.Errorf("writing evidence shard: %v", err)
		}
	}()
	known := loadKnown(p.ID)
	sh, _ := shard()

	handle := func(c C, f *Fail, fatal func(string, ...interface{})) {
		if f == nil {
			return
		}
		if id, ok := suppressed(known, f); ok {
			rec.Known(id)
			return
		}
		writeReplay(p.ID, c, f)
		if hasTag(f, "hang") {
			// no shrinking for a non-terminating case: every further attempt would
			// cost the full watchdog time and leave another spinning goroutine behind
			fmt.Printf("VIOLATION-CANDIDATE %s: %s tags=%v\n", p.ID, f.Msg, f.Tags)
			_ = rec.Write(os.Getenv("VERIF_OUT"))
			os.Exit(3)
		}
		fatal("VIOLATION-CANDIDATE %s: %s tags=%v", p.ID, f.Msg, f.Tags)
	}

	// replay mode: one saved case, no generation
	if path := os.Getenv("VERIF_REPLAY"); path != "" {
		b, err := os.ReadFile(path)
		if err != nil {
			t.Fatalf("replay: %v", err)
		}
		var rf replayFile
		if err := json.Unmarshal(b, &rf); err != nil {
			t.Fatalf("replay: %v", err)
		}
		var c C
		if err := json.Unmarshal(rf.Case, &c); err != nil {
			t.Fatalf("replay: bad case: %v", err)
		}
		rec.Eval()
		if f := safeCheck(p, c, rec); f != nil {
			fmt.Printf("REPLAY-FAIL property=%s tags=%v msg=%s\n", p.ID, f.Tags, f.Msg)
			t.Fatalf("replay fails")
		}
		fmt.Printf("REPLAY-PASS property=%s\n", p.ID)
		return
	}

	if sh == 0 {
		// known-finding witnesses: report the ones that still fail; fixed ones must pass
		for _, k := range known {
			if len(k.Witness) == 0 {
				continue
			}
			var c C
			if err := json.Unmarshal(k.Witness, &c); err != nil {
				t.Fatalf("known finding %s: bad witness: %v", k.ID, err)
			}
			f := safeCheck(p, c, rec)
			switch k.Status {
			case "known":
				if f != nil && hasTag(f, k.Classifier) {
					fmt.Printf("KNOWN-FINDING: property=%s %s [%s]\n", p.ID, k.Description, k.ID)
					rec.Known(k.ID)
				} else if f != nil {
					writeReplay(p.ID, c, f)
					t.Fatalf("VIOLATION-CANDIDATE %s: witness of %s fails differently: %s tags=%v", p.ID, k.ID, f.Msg, f.Tags)
				} else {
					rec.Note("known finding " + k.ID + " no longer reproduces on its witness")
				}
			case "fixed":
				if f != nil {
					writeReplay(p.ID, c, f)
					t.Fatalf("VIOLATION-CANDIDATE %s: fixed finding %s is back: %s", p.ID, k.ID, f.Msg)
				}
				rec.Class("regression:fixed-witness")
			}
		}
		// saved replays and hand-written witnesses
		if dir := os.Getenv("VERIF_REGRESS_DIR"); dir != "" {
			files, _ := filepath.Glob(filepath.Join(dir, "*.json"))
			sort.Strings(files)
			for _, fn := range files {
				b, err := os.ReadFile(fn)
				if err != nil {
					continue
				}
				var rf replayFile
				var c C
				if json.Unmarshal(b, &rf) != nil || json.Unmarshal(rf.Case, &c) != nil {
					rec.Note("unreadable replay " + fn)
					continue
				}
				rec.Class("regression:saved-replay")
				handle(c, safeCheck(p, c, rec), t.Fatalf)
			}
		}
		for _, c := range p.Witnesses {
			rec.Class("regression:witness")
			handle(c, safeCheck(p, c, rec), t.Fatalf)
		}
	}
	if p.Exhaustive != nil {
		// enumerators partition their space over the shards themselves
		p.Exhaustive(rec, func(c C) {
			handle(c, safeCheck(p, c, rec), t.Fatalf)
		})
	}
	if p.Gen == nil {
		return
	}
	rapid.Check(t, func(rt *rapid.T) {
		c := p.Gen(rt, rec)
		handle(c, safeCheck(p, c, rec), rt.Fatalf)
	})
}

func hasTag(f *Fail, tag string) bool {
	for _, t := range f.Tags {
		if t == tag {
			return true
		}
	}
	return false
}

func trunc(s string, n int) string {
	if len(s) <= n {
		return s
	}
	return s[:n] + "…"
}

var _ = strings.Contains
