package props

import (
	"fmt"
	"strings"
	"testing"

	"github.com/xjslang/xjs/ast"
	"github.com/xjslang/xjs/lexer"
	"github.com/xjslang/xjs/parser"
	"github.com/xjslang/xjs/token"
	"pgregory.net/rapid"

	"verif/harness/evid"
	"verif/harness/gen"
	"verif/harness/ir"
	"verif/harness/pratt"
	"verif/harness/shape"
)

// C05 — custom operators and token types integrate consistently.

// nodes created by the test's own createExpr callbacks
type customNode struct {
	name string
	ops  []ast.Expression
}

func (c *customNode) WriteTo(cw *ast.CodeWriter) {
	cw.WriteString(c.name + "(")
	for i, o := range c.ops {
		if i > 0 {
			cw.WriteRune(',')
		}
		if o != nil {
			o.WriteTo(cw)
		}
	}
	cw.WriteRune(')')
}
func (c *customNode) Precedence() int                         { return ast.PrecedenceAtomic }
func (c *customNode) CustomShape() (string, []ast.Expression) { return c.name, c.ops }

type c05Op struct {
	Lexeme string `json:"lexeme"`
	Role   string `json:"role"` // infix | prefix | postfix
	Level  int    `json:"level,omitempty"`
}

type c05Case struct {
	// grouping case
	Ops  []c05Op  `json:"ops,omitempty"`
	Toks []string `json:"toks,omitempty"`
	// Breaks: indices of tokens that start a new line (the expression is one
	// statement; no built-in postfix ++/-- occurs in operator position, so a
	// line break is white space everywhere)
	Breaks []int `json:"breaks,omitempty"`
	// registration history
	Hist []c05Step `json:"hist,omitempty"`
}

type c05Step struct {
	Op    string `json:"op"`              // type | prefix | infix | postfix
	Name  string `json:"name,omitempty"`  // token type name (dynamic) ...
	Built string `json:"built,omitempty"` // ... or built-in operator lexeme
	Level int    `json:"level,omitempty"`
}

var builtinBin = map[string]int{"||": 3, "&&": 4, "==": 5, "!=": 5, "<": 6, ">": 6, "<=": 6, ">=": 6, "+": 7, "-": 7, "*": 8, "/": 8, "%": 8}
var peerOfLevel = map[int]string{3: "||", 4: "&&", 5: "==", 6: "<", 7: "+", 8: "*"}

// c05Build creates builders with the custom operators installed.
func c05Build(ops []c05Op) (*parser.Builder, error) { return c05BuildStaged(ops, -1) }

// c05BuildStaged registers the operators like c05Build, but builds and uses a
// parser after the first `cut` registrations (cut < 0: never): a builder that
// has already built parsers goes on accepting registrations, and the parsers it
// builds afterwards know all of them.
func c05BuildStaged(ops []c05Op, cut int) (*parser.Builder, error) {
	lb := lexer.NewBuilder()
	types := map[string]token.Type{}
	for _, o := range ops {
		if tt, ok := c05BuiltTok[o.Lexeme]; ok {
			types[o.Lexeme] = tt // an additional role for a built-in token
			continue
		}
		types[o.Lexeme] = lb.RegisterTokenType("custom" + o.Lexeme)
	}
	lb.UseTokenInterceptor(func(l *lexer.Lexer, next func() token.Token) token.Token {
		t := next()
		if t.Type == token.ILLEGAL || t.Type == token.IDENT {
			if tt, ok := types[t.Literal]; ok {
				t.Type = tt
			}
		}
		return t
	})
	pb := parser.NewBuilder(lb)
	for i, o := range ops {
		o := o
		if i == cut {
			pb.Build("a + b * c\nd(e).f").ParseProgram()
		}
		var err error
		switch o.Role {
		case "infix":
			err = pb.RegisterInfixOperator(types[o.Lexeme], o.Level, func(tok token.Token, left ast.Expression, right func() ast.Expression) ast.Expression {
				return &customNode{name: "in:" + o.Lexeme, ops: []ast.Expression{left, right()}}
			})
		case "prefix":
			err = pb.RegisterPrefixOperator(types[o.Lexeme], func(tok token.Token, right func() ast.Expression) ast.Expression {
				return &customNode{name: "pre:" + o.Lexeme, ops: []ast.Expression{right()}}
			})
		case "postfix":
			err = pb.RegisterPostfixOperator(types[o.Lexeme], func(tok token.Token, left ast.Expression) ast.Expression {
				return &customNode{name: "post:" + o.Lexeme, ops: []ast.Expression{left}}
			})
		}
		if err != nil {
			return nil, err
		}
	}
	return pb, nil
}

func c05ModelToks(ops []c05Op, toks []string) []pratt.Tok {
	// a lexeme may carry a prefix role in addition to an infix or postfix role
	custom := map[string]c05Op{}
	alsoPrefix := map[string]bool{}
	for _, o := range ops {
		if o.Role == "prefix" {
			alsoPrefix[o.Lexeme] = true
			if _, ok := custom[o.Lexeme]; ok {
				continue
			}
		}
		if prev, ok := custom[o.Lexeme]; !ok || prev.Role == "prefix" {
			custom[o.Lexeme] = o
		}
	}
	var out []pratt.Tok
	for _, s := range toks {
		if o, ok := custom[s]; ok {
			_, builtin := builtinBin[s]
			switch o.Role {
			case "infix":
				out = append(out, pratt.Tok{Text: s, Role: pratt.InfixLeft, Level: o.Level, Custom: true, AlsoPrefix: alsoPrefix[s]})
			case "prefix":
				if builtin {
					// a registered prefix role on a built-in binary operator (unary plus)
					out = append(out, pratt.Tok{Text: s, Role: pratt.InfixLeft, Level: builtinBin[s], AlsoPrefix: true, CustomPrefix: true})
				} else {
					out = append(out, pratt.Tok{Text: s, Role: pratt.Prefix, Custom: true})
				}
			default:
				out = append(out, pratt.Tok{Text: s, Role: pratt.Postfix, Level: pratt.Call, Custom: true, AlsoPrefix: alsoPrefix[s]})
			}
			continue
		}
		switch s {
		case "(":
			out = append(out, pratt.Tok{Text: s, Role: pratt.LParen})
		case ")":
			out = append(out, pratt.Tok{Text: s, Role: pratt.RParen})
		case "[":
			out = append(out, pratt.Tok{Text: s, Role: pratt.LBracket})
		case "]":
			out = append(out, pratt.Tok{Text: s, Role: pratt.RBracket})
		case ".":
			out = append(out, pratt.Tok{Text: s, Role: pratt.Dot})
		case ",":
			out = append(out, pratt.Tok{Text: s, Role: pratt.Comma})
		case "=", "+=", "-=":
			out = append(out, pratt.Tok{Text: s, Role: pratt.AssignRight, Level: pratt.Assignment})
		case "!":
			out = append(out, pratt.Tok{Text: s, Role: pratt.Prefix})
		case "++", "--":
			out = append(out, pratt.Tok{Text: s, Role: pratt.Postfix, Level: pratt.PostfixLvl, AlsoPrefix: true})
		default:
			if lv, ok := builtinBin[s]; ok {
				out = append(out, pratt.Tok{Text: s, Role: pratt.InfixLeft, Level: lv, AlsoPrefix: s == "-"})
			} else {
				out = append(out, pratt.Tok{Text: s, Role: pratt.Operand})
			}
		}
	}
	return out
}

func c05ParseX(pb *parser.Builder, src string) (*ir.Node, []parser.ParserError, error) {
	p := pb.Build(src)
	prog, err := p.ParseProgram()
	if err != nil || len(p.Errors()) > 0 {
		return nil, p.Errors(), err
	}
	if len(prog.Statements) != 1 {
		return nil, nil, fmt.Errorf("%d statements", len(prog.Statements))
	}
	es, ok := prog.Statements[0].(*ast.ExpressionStatement)
	if !ok {
		return nil, nil, fmt.Errorf("statement is %T", prog.Statements[0])
	}
	n, err := shape.ExprFromXJSLenient(es.Expression)
	return n, nil, err
}

// rename maps custom nodes to the built-in peer operator of their level.
func c05Rename(n *ir.Node, peers map[string]*ir.Node) *ir.Node {
	if n == nil {
		return nil
	}
	c := *n
	c.Kids = make([]*ir.Node, len(n.Kids))
	for i, k := range n.Kids {
		c.Kids[i] = c05Rename(k, peers)
	}
	if n.K == ir.Custom {
		if tmpl, ok := peers[n.Op]; ok {
			c.K, c.Op = tmpl.K, tmpl.Op
		}
	}
	return &c
}

func c05Join(toks []string, breaks []int) string {
	br := map[int]bool{}
	for _, i := range breaks {
		br[i] = true
	}
	var b strings.Builder
	for i, t := range toks {
		if i > 0 {
			// never before a built-in ++/-- or ( [ (restricted production / would
			// need no special care, but keeps the text unambiguous for readers)
			if br[i] && t != "++" && t != "--" {
				b.WriteString("\n  ")
			} else {
				b.WriteString(" ")
			}
		}
		b.WriteString(t)
	}
	return b.String()
}

func c05Check(c c05Case, rec *evid.Recorder) *Fail {
	if c.Hist != nil {
		return c05CheckHist(c, rec)
	}
	rec.Eval()
	src := c05Join(c.Toks, c.Breaks)
	pb, err := c05Build(c.Ops)
	if err != nil {
		return failf("registration of fresh custom operators refused: %v (ops %v)", err, c.Ops)
	}
	level1 := false
	for _, o := range c.Ops {
		if o.Role == "infix" && o.Level <= 1 {
			level1 = true
		}
	}
	want, merr := pratt.Parse(c05ModelToks(c.Ops, c.Toks))
	got, errs, xerr := c05ParseX(pb, src)
	if merr != nil {
		if level1 {
			rec.Class("level1:model-cannot-apply-operator")
			if xerr != nil || len(errs) > 0 {
				return failf("infix operator registered at level 1 is never applied: %q gives %v", src, errs).tag("level1-infix-never-applied")
			}
			return nil
		}
		return failf("reference model rejects generated token string %q: %v", src, merr).tag("harness-selfcheck")
	}
	if xerr != nil || len(errs) > 0 {
		f := failf("xjs rejects %q with custom operators %v: %v %v\nmodel tree %s", src, c.Ops, xerr, errs, ir.Sexp(want))
		if level1 {
			f.tag("level1-infix-never-applied")
		}
		return f
	}
	if d := ir.Diff(want, got); d != "" {
		f := failf("grouping differs from a left-associative operator of that level: %s\nsrc %q ops %v\nwant %s\ngot  %s", d, src, c.Ops, ir.Sexp(want), ir.Sexp(got))
		if level1 {
			f.tag("level1-infix-never-applied")
		}
		return f
	}
	// registrations made after the builder has built (and used) a parser count as well
	for cut := 0; cut < len(c.Ops); cut++ {
		spb, err := c05BuildStaged(c.Ops, cut)
		if err != nil {
			return failf("registration refused on a builder that has built a parser before (after %d of %v): %v", cut, c.Ops, err)
		}
		sgot, serrs, serr := c05ParseX(spb, src)
		if serr != nil || len(serrs) > 0 {
			return failf("a builder that built a parser after %d of its %d registrations rejects %q: %v %v (registered up front: accepted)\nops %v", cut, len(c.Ops), src, serr, serrs, c.Ops)
		}
		if d := ir.Diff(got, sgot); d != "" {
			return failf("a builder that built a parser after %d of its %d registrations groups differently: %s\nsrc %q ops %v\nup front %s\nstaged   %s", cut, len(c.Ops), d, src, c.Ops, ir.Sexp(got), ir.Sexp(sgot))
		}
		rec.Class("history:registration-after-build")
	}
	// metamorphic: replace custom operators that have a built-in peer
	peers := map[string]*ir.Node{}
	repl := map[string]string{}
	for _, o := range c.Ops {
		switch o.Role {
		case "infix":
			if p, ok := peerOfLevel[o.Level]; ok {
				peers["in:"+o.Lexeme] = ir.N(ir.Binary, p)
				repl[o.Lexeme] = p
			}
		case "prefix":
			peers["pre:"+o.Lexeme] = ir.N(ir.Unary, "!")
			repl[o.Lexeme] = "!"
		}
	}
	allPeered := true
	seenLex := map[string]bool{}
	for _, o := range c.Ops {
		// the textual replacement cannot tell two roles of one lexeme apart
		if _, builtin := c05BuiltTok[o.Lexeme]; builtin || seenLex[o.Lexeme] {
			allPeered = false
		}
		seenLex[o.Lexeme] = true
	}
	for _, o := range c.Ops {
		if _, ok := repl[o.Lexeme]; !ok {
			for _, t := range c.Toks {
				if t == o.Lexeme {
					allPeered = false
				}
			}
		}
	}
	if allPeered && len(repl) > 0 {
		toks2 := make([]string, len(c.Toks))
		for i, t := range c.Toks {
			if r, ok := repl[t]; ok {
				toks2[i] = r
			} else {
				toks2[i] = t
			}
		}
		src2 := strings.Join(toks2, " ")
		plain, errs2, err2 := c05ParseX(parser.NewBuilder(lexer.NewBuilder()), src2)
		if err2 != nil || len(errs2) > 0 {
			return failf("built-in peer expression %q is rejected (%v %v) although %q is accepted", src2, err2, errs2, src)
		}
		if d := ir.Diff(c05Rename(got, peers), plain); d != "" {
			return failf("custom operators group differently from built-in operators of the same level: %s\ncustom  %q -> %s\nbuilt-in %q -> %s", d, src, ir.Sexp(got), src2, ir.Sexp(plain))
		}
		rec.Class("metamorphic:peer-compared")
	}
	// non-trivial: a custom operator next to a built-in of another level
	ops := 0
	for _, t := range c.Toks {
		if _, ok := builtinBin[t]; ok || t == "=" || t == "+=" || t == "-=" || t == "!" || t == "++" || t == "--" || t == "." || t == "(" || t == "[" {
			ops++
		}
	}
	if ops >= 1 && len(c.Ops) > 0 {
		rec.NonTrivial(fmt.Sprintf("%v|%s", c.Ops, src))
	}
	rec.Sample(len(c.Toks), map[string]interface{}{"src": src, "ops": c.Ops, "tree": ir.Sexp(got)})
	return nil
}

// ---- token-string generator (state machine: operand expected / operator expected)

func c05GenToks(r gen.R, ops []c05Op, max int) []string {
	var infix, prefix, postfix []string
	for _, o := range ops {
		switch o.Role {
		case "infix":
			infix = append(infix, o.Lexeme)
		case "prefix":
			prefix = append(prefix, o.Lexeme)
		default:
			postfix = append(postfix, o.Lexeme)
		}
	}
	bins := gen.BinOps
	var out []string
	depth := []string{} // stack of expected closers
	names := []string{"a", "b", "c", "d", "e", "f"}
	expectOperand := true
	for len(out) < max || expectOperand || len(depth) > 0 {
		closing := len(out) >= max
		if expectOperand {
			switch k := r.Pick("operand", 10, 2, 2, 2, 2); {
			case k == 0 || closing:
				out = append(out, names[r.Intn(len(names), "name")])
				expectOperand = false
			case k == 1:
				out = append(out, []string{"-", "!"}[r.Intn(2, "pre")])
			case k == 2 && len(prefix) > 0:
				out = append(out, prefix[r.Intn(len(prefix), "cpre")])
			case k == 3:
				out = append(out, "(")
				depth = append(depth, ")")
			default:
				out = append(out, []string{"++", "--"}[r.Intn(2, "incdec")], names[r.Intn(len(names), "name")])
				expectOperand = false
			}
			continue
		}
		// operator position
		if closing {
			if len(depth) == 0 {
				break
			}
			out = append(out, depth[len(depth)-1])
			depth = depth[:len(depth)-1]
			continue
		}
		switch k := r.Pick("operator", 8, 8, 2, 2, 2, 2, 2, 3, 1); {
		case k == 0:
			out = append(out, bins[r.Intn(len(bins), "bin")])
			expectOperand = true
		case k == 1 && len(infix) > 0:
			out = append(out, infix[r.Intn(len(infix), "cin")])
			expectOperand = true
		case k == 2 && len(postfix) > 0:
			out = append(out, postfix[r.Intn(len(postfix), "cpost")])
		case k == 3:
			out = append(out, ".", names[r.Intn(len(names), "prop")])
		case k == 4:
			out = append(out, "(")
			if r.Bool("noargs") {
				out = append(out, ")")
			} else {
				depth = append(depth, ")")
				expectOperand = true
			}
		case k == 5:
			out = append(out, "[")
			depth = append(depth, "]")
			expectOperand = true
		case k == 6:
			out = append(out, []string{"=", "+=", "-="}[r.Intn(3, "asg")])
			expectOperand = true
		case k == 7 && len(depth) > 0:
			out = append(out, depth[len(depth)-1])
			depth = depth[:len(depth)-1]
		case k == 8 && len(depth) > 0 && depth[len(depth)-1] == ")" && false:
			// (commas only inside call parentheses; not tracked separately, so disabled)
		default:
			out = append(out, bins[r.Intn(len(bins), "bin")])
			expectOperand = true
		}
	}
	return out
}

func c05Gen(t *rapid.T, rec *evid.Recorder) c05Case {
	r := gen.R{T: t}
	if r.Intn(5, "hist") == 0 {
		return c05GenHist(r, rec)
	}
	var ops []c05Op
	lex := []string{"@", "#", "^"}
	for i, n := 0, 1+r.Intn(3, "ninfix"); i < n; i++ {
		ops = append(ops, c05Op{Lexeme: lex[i], Role: "infix", Level: 2 + r.Intn(12, "level")})
		rec.Class(fmt.Sprintf("infix-level:%d", ops[len(ops)-1].Level))
	}
	if r.Intn(5, "colon") == 0 {
		// an operator on a built-in token that has no role in expressions (the
		// colon of object literals, which these token strings never contain)
		lex = []string{":", "#", "^"}
		ops[0].Lexeme = ":"
		rec.Class("infix-on-builtin-colon")
	}
	if r.Bool("prefix") {
		ops = append(ops, c05Op{Lexeme: "~", Role: "prefix"})
	}
	if r.Bool("postfix") {
		ops = append(ops, c05Op{Lexeme: "?", Role: "postfix"})
	}
	// tokens with two roles: a prefix role on a lexeme that is also a registered
	// infix or postfix operator, and on a built-in binary operator (unary plus)
	switch r.Intn(6, "tworoles") {
	case 0:
		ops = append(ops, c05Op{Lexeme: lex[0], Role: "prefix"})
		rec.Class("two-roles:infix+prefix")
	case 1:
		if ops[len(ops)-1].Role == "postfix" {
			ops = append(ops, c05Op{Lexeme: "?", Role: "prefix"})
			rec.Class("two-roles:postfix+prefix")
		}
	case 2:
		ops = append(ops, c05Op{Lexeme: []string{"+", "*", "==", "&&"}[r.Intn(4, "builtinpre")], Role: "prefix"})
		rec.Class("two-roles:builtin-infix+prefix")
	}
	c := c05Case{Ops: ops, Toks: c05GenToks(r, ops, 3+r.Intn(20, "len"))}
	if r.Intn(3, "multiline") == 0 {
		for i, n := 0, 1+r.Intn(4, "nbreaks"); i < n; i++ {
			c.Breaks = append(c.Breaks, 1+r.Intn(len(c.Toks), "break"))
		}
		rec.Class("multi-line expression")
	}
	return c
}

// exhaustive: every level x every built-in neighbour on either side x operand shapes
func c05Exhaustive(rec *evid.Recorder, report func(c05Case)) {
	if sh, _ := shard(); sh != 0 {
		return
	}
	n := 0
	emit := func(ops []c05Op, toks ...string) {
		n++
		report(c05Case{Ops: ops, Toks: toks})
	}
	binAndAssign := append(append([]string{}, gen.BinOps...), "=", "+=", "-=")
	for L := 1; L <= 13; L++ {
		ops := []c05Op{{Lexeme: "@", Role: "infix", Level: L}, {Lexeme: "~", Role: "prefix"}, {Lexeme: "?", Role: "postfix"}}
		emit(ops, "x", "@", "y")
		emit(ops, "x", "@", "y", "@", "z")
		for _, N := range binAndAssign {
			emit(ops, "x", N, "y", "@", "z")
			emit(ops, "x", "@", "y", N, "z")
			emit(ops, "x", N, "y", "@", "z", N, "w")
			emit(ops, "x", "@", "y", N, "z", "@", "w")
		}
		for _, N := range []string{"-", "!", "++", "--", "~"} {
			emit(ops, N, "x", "@", "y")
			emit(ops, "x", "@", N, "y")
		}
		for _, N := range []string{"++", "--", "?"} {
			emit(ops, "x", N, "@", "y")
			emit(ops, "x", "@", "y", N)
		}
		emit(ops, "x", "(", ")", "@", "y")
		emit(ops, "x", "@", "y", "(", ")")
		emit(ops, "x", "@", "y", "(", "z", ")")
		emit(ops, "x", ".", "p", "@", "y")
		emit(ops, "x", "@", "y", ".", "p")
		emit(ops, "x", "[", "i", "]", "@", "y")
		emit(ops, "x", "@", "y", "[", "i", "]")
		emit(ops, "(", "x", "@", "y", ")", "@", "z")
		emit(ops, "x", "@", "(", "y", "@", "z", ")")
		emit(ops, "f", "(", "x", "@", "y", ")")
		emit(ops, "~", "x", "?")
		emit(ops, "~", "x", ".", "p")
		emit(ops, "~", "x", "(", ")")
		emit(ops, "-", "x", "?")
		emit(ops, "x", "?", "?", ".", "p", "?")
		emit(ops, "x", "?", "++")
		emit(ops, "x", "++", "?")
		for L2 := 2; L2 <= 13; L2++ {
			if L == 1 {
				continue
			}
			ops2 := []c05Op{{Lexeme: "@", Role: "infix", Level: L}, {Lexeme: "#", Role: "infix", Level: L2}}
			emit(ops2, "x", "@", "y", "#", "z")
			emit(ops2, "x", "#", "y", "@", "z")
			emit(ops2, "x", "@", "y", "#", "z", "@", "w")
		}
	}
	rec.ClassN("exhaustive-cases", n)
	rec.Exhaustive("every infix level 1..13 x every built-in binary/assignment/prefix/postfix/call/member/index neighbour on either side; every pair of custom levels")
}

// ---- registration histories

type c05Model struct {
	ids     map[string]token.Type
	prefix  map[token.Type]bool
	infix   map[token.Type]bool
	postfix map[token.Type]bool
}

var c05BuiltTok = map[string]token.Type{"+": token.PLUS, "-": token.MINUS, "*": token.MULTIPLY, "!": token.NOT, "++": token.INCREMENT, "--": token.DECREMENT, "==": token.EQ, "=": token.ASSIGN,
	"(": token.LPAREN, "[": token.LBRACKET, ".": token.DOT, "ident": token.IDENT, "{": token.LBRACE, "function": token.FUNCTION, ",": token.COMMA, ":": token.COLON, "&&": token.AND}

func newC05Model() *c05Model {
	m := &c05Model{ids: map[string]token.Type{}, prefix: map[token.Type]bool{}, infix: map[token.Type]bool{}, postfix: map[token.Type]bool{}}
	for _, t := range []token.Type{token.IDENT, token.INT, token.FLOAT, token.STRING, token.RAW_STRING, token.TRUE, token.FALSE, token.NULL, token.NOT, token.MINUS, token.INCREMENT, token.DECREMENT, token.LPAREN, token.LBRACKET, token.LBRACE, token.FUNCTION} {
		m.prefix[t] = true
	}
	for _, t := range []token.Type{token.ASSIGN, token.PLUS_ASSIGN, token.MINUS_ASSIGN, token.OR, token.AND, token.EQ, token.NOT_EQ, token.LT, token.GT, token.LTE, token.GTE, token.PLUS, token.MINUS, token.MULTIPLY, token.DIVIDE, token.MODULO, token.INCREMENT, token.DECREMENT, token.LPAREN, token.DOT, token.LBRACKET} {
		m.infix[t] = true
	}
	m.postfix[token.INCREMENT] = true
	m.postfix[token.DECREMENT] = true
	return m
}

const c05Probe = "a + b * -c == d && !e . f ( g ) [ h ] ++ ; w0 w1 w2 w3 x w0 y w1 z w2 u w3 ; p = q"

func c05ProbeResult(lb *lexer.Builder, pb *parser.Builder) string {
	defer func() { recover() }()
	p := pb.Build(c05Probe)
	prog, _ := p.ParseProgram()
	var b strings.Builder
	fmt.Fprintf(&b, "%d errors:", len(p.Errors()))
	for _, e := range p.Errors() {
		fmt.Fprintf(&b, " %s@%d:%d", e.Message, e.Range.Start.Line, e.Range.Start.Column)
	}
	b.WriteString(" | ")
	b.WriteString(compileSafe(prog))
	return b.String()
}

func c05CheckHist(c c05Case, rec *evid.Recorder) *Fail {
	rec.Eval()
	lb := lexer.NewBuilder()
	// dynamic token words w0..w3 are recognised by name once registered
	dyn := map[string]token.Type{}
	lb.UseTokenInterceptor(func(l *lexer.Lexer, next func() token.Token) token.Token {
		t := next()
		if t.Type == token.IDENT {
			if tt, ok := dyn[t.Literal]; ok {
				t.Type = tt
			}
		}
		return t
	})
	pb := parser.NewBuilder(lb)
	m := newC05Model()
	refused, accepted := 0, 0
	for i, st := range c.Hist {
		if st.Op == "type" {
			id := lb.RegisterTokenType(st.Name)
			if want, ok := m.ids[st.Name]; ok {
				if id != want {
					return failf("step %d: RegisterTokenType(%q) returned %d, earlier %d (ids must be stable per name)", i, st.Name, id, want)
				}
			} else {
				if id < token.DYNAMIC_TOKENS_START {
					return failf("step %d: RegisterTokenType(%q) returned %d, inside the built-in range", i, st.Name, id)
				}
				for n, other := range m.ids {
					if other == id {
						return failf("step %d: RegisterTokenType(%q) returned %d, already given to %q", i, st.Name, id, n)
					}
				}
				m.ids[st.Name] = id
			}
			dyn[st.Name] = id
			continue
		}
		var tt token.Type
		if st.Built != "" {
			tt = c05BuiltTok[st.Built]
		} else {
			id, ok := m.ids[st.Name]
			if !ok {
				id = lb.RegisterTokenType(st.Name)
				m.ids[st.Name] = id
				dyn[st.Name] = id
			}
			tt = id
		}
		before := c05ProbeResult(lb, pb)
		label := fmt.Sprintf("%s#%d", st.Op, i)
		var err error
		var occupied bool
		switch st.Op {
		case "prefix":
			occupied = m.prefix[tt]
			err = pb.RegisterPrefixOperator(tt, func(tok token.Token, right func() ast.Expression) ast.Expression {
				return &customNode{name: label, ops: []ast.Expression{right()}}
			})
			if err == nil {
				m.prefix[tt] = true
			}
		case "infix":
			occupied = m.infix[tt]
			err = pb.RegisterInfixOperator(tt, st.Level, func(tok token.Token, left ast.Expression, right func() ast.Expression) ast.Expression {
				return &customNode{name: label, ops: []ast.Expression{left, right()}}
			})
			if err == nil {
				m.infix[tt] = true
			}
		case "postfix":
			occupied = m.postfix[tt]
			err = pb.RegisterPostfixOperator(tt, func(tok token.Token, left ast.Expression) ast.Expression {
				return &customNode{name: label, ops: []ast.Expression{left}}
			})
			if err == nil {
				m.postfix[tt] = true
			}
		}
		if occupied && err == nil {
			return failf("step %d: registering a second %s operator for token %v (%s%s) was accepted", i, st.Op, tt, st.Name, st.Built)
		}
		if !occupied && err != nil {
			return failf("step %d: registering a %s operator for free token %v (%s%s) was refused: %v", i, st.Op, tt, st.Name, st.Built, err)
		}
		if err != nil {
			refused++
			after := c05ProbeResult(lb, pb)
			if after != before {
				return failf("step %d: a refused %s registration for %s%s changed the parser:\nbefore %s\nafter  %s", i, st.Op, st.Name, st.Built, before, after)
			}
		} else {
			accepted++
		}
	}
	if refused >= 1 && accepted >= 1 {
		rec.NonTrivial(fmt.Sprintf("%v", c.Hist))
	}
	rec.Class("history")
	rec.Sample(len(c.Hist), map[string]interface{}{"history": c.Hist})
	return nil
}

func c05GenHist(r gen.R, rec *evid.Recorder) c05Case {
	var h []c05Step
	// names: plain words, every reserved word of the subset, names that look like
	// built-in token types or lexemes, the empty name, non-ASCII
	names := []string{"w0", "w1", "w2", "w3", "function", "let", "if", "else", "while", "for", "return", "true", "false", "null",
		"typeof", "await", "", "IDENT", "EOF", "ILLEGAL", "PLUS", "+", "==", "(", "w0 ", "W0", "é"}
	built := []string{"+", "-", "*", "!", "++", "--", "==", "=", "(", "[", ".", "ident", "{", "function", ",", ":", "&&"}
	for i, n := 0, 2+r.Intn(28, "nsteps"); i < n; i++ {
		switch r.Pick("hop", 3, 3, 4, 3) {
		case 0:
			h = append(h, c05Step{Op: "type", Name: names[r.Pick("name", 6, 6, 6, 6, 2, 2, 2, 2, 2, 2, 2, 2, 2, 2, 2, 2, 2, 2, 2, 2, 2, 2, 2, 2, 2, 2, 2)]})
		default:
			st := c05Step{Op: []string{"prefix", "infix", "postfix"}[r.Intn(3, "role")], Level: 2 + r.Intn(12, "level")}
			if r.Intn(3, "builtin") == 0 {
				st.Built = built[r.Intn(len(built), "built")]
			} else {
				st.Name = names[r.Pick("name", 6, 6, 6, 6, 2, 2, 2, 2, 2, 2, 2, 2, 2, 2, 2, 2, 2, 2, 2, 2, 2, 2, 2, 2, 2, 2, 2)]
			}
			h = append(h, st)
		}
	}
	return c05Case{Hist: h}
}

var c05Witnesses = []c05Case{
	{Ops: []c05Op{{Lexeme: "@", Role: "infix", Level: 1}}, Toks: []string{"x", "@", "y"}},
	{Ops: []c05Op{{Lexeme: "@", Role: "infix", Level: 7}}, Toks: []string{"a", "@", "b", "*", "c", "@", "d", "-", "e"}},
	{Hist: []c05Step{{Op: "type", Name: "w0"}, {Op: "type", Name: "w1"}, {Op: "type", Name: "w0"}, {Op: "infix", Name: "w0", Level: 7}, {Op: "infix", Name: "w0", Level: 3}, {Op: "infix", Built: "+", Level: 3}, {Op: "prefix", Built: "-"}, {Op: "postfix", Built: "++"}, {Op: "postfix", Name: "w1"}, {Op: "postfix", Name: "w1"}}},
}

func TestC05(t *testing.T) {
	run(t, &prop[c05Case]{ID: "C05", Gen: c05Gen, Check: c05Check, Exhaustive: c05Exhaustive, Witnesses: c05Witnesses})
}
