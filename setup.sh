#!/bin/sh
# Offline setup: compile the harness once so that the Go build cache is warm.
set -e
export GOFLAGS=-mod=mod GOPROXY=off GOSUMDB=off GOTOOLCHAIN=local
cd "$(dirname "$0")/harness"
mkdir -p ../.build
go test -c -o ../.build/props.setup.test ./props/
go test -c -tags verif -o ../.build/props.hook.setup.test ./props/
go test -c -race -tags verif -o ../.build/props.race.setup.test ./props/
rm -f ../.build/*.setup.test
echo setup ok
